#!/bin/sh
# usage: tools/seedcheck.sh [seed ...]   — applies each seeded change to /repo, runs the quick check of the
# property it breaks, reverts, and prints whether a (replayed) VIOLATION was reported.
cd "$(dirname "$0")/.." || exit 2
SEEDS="$@"; [ -z "$SEEDS" ] && SEEDS=$(ls seeded)
for s in $SEEDS; do
  P=$(python3 -c "import json;print(json.load(open('seeded/$s/meta.json'))['breaks_property'])")
  git -C /repo checkout -- . 2>/dev/null
  git -C /repo apply /verif/seeded/$s/patch.diff || { echo "$s: patch does not apply"; continue; }
  S=$(date +%s)
  timeout 3600 ./check $P quick > /tmp/seedcheck_$s.log 2>&1; RC=$?
  git -C /repo checkout -- .
  echo "$s property=$P rc=$RC violations=$(grep -c '^VIOLATION' /tmp/seedcheck_$s.log) unconfirmed=$(grep -c 'unconfirmed model' /tmp/seedcheck_$s.log) $(( $(date +%s)-S ))s"
done
git -C /repo status --short | head -3
