#!/usr/bin/env python3
"""Regenerates /verif/MANIFEST.json from the table below (claims) and properties.jsonl."""
import json
props=[json.loads(l)['id'] for l in open('/verif/properties.jsonl')]
TECH="bounded symbolic execution of go/ssa (own engine) + SMT (cvc5): assertion decided for all values within stated bounds; counterexamples replayed on the real build"
NOTE="Trusted: go/ssa + go/packages (x/tools v0.30.0), cvc5 1.0.3, the engine's SSA interpreter and its stubs for std / go/types / os (each listed with its contract in the evidence file). Bounds and what lies outside them are in the evidence (coverage.bounds / outside_bounds)."
G="G.seq: every generated method/accessor/reset of every corpus mock (10 interfaces × flag combinations, emitted by moq built from the current tree) executed from SSA from an arbitrary receiver state with arbitrary arguments — one inductive step covers call/read/reset histories of any length; "
HM="H.mock ((*Mocker).Mock from SSA over a model source package whose object names are symbolic, k symbolic arguments, symbolic flags and faults) "
claimed={
 "C02":("partial: "+HM+"— each mock wraps exactly the go/types methods/params/results of the looked-up interface in order, and the strings the real renderers (ArgList, ReturnArgTypeList, ArgCallList, evaluated from SSA after all imports are final) print equal an independent rendering of the go/types signature under the final qualifiers, variadic tail as ...T; G.seq: one function field per interface method and go/types.Implements on every non-generic corpus mock. Not claimed: identity of types behind equal strings for interfaces outside the shapes","§4 C02"),
 "C09":("partial: "+HM+"— number and order of type parameters equal the looked-up interface's (incl. aliases of instantiated generics and self-referential constraints), each wrapping the interface's type parameter; generic corpus mocks are executed uninstantiated in G.seq. Not claimed: validity of the self-check instantiation (go/types' judgement, finding F6)","§4 C09"),
 "C10":("partial: "+HM+"in destination modes {same, unknown, other}: package clause, SrcPkgQualifier, 'never imports its own package', source package imported iff needed with -skip-ensure, self-check qualified by the registered import. Not claimed yet: findPkgPath's mapping from -pkg to the destination path (H.pkgpath, finding F3)","§4 C10"),
 "C14":("H.order: methodData + Registry.Imports executed twice on identical symbolic inputs with every map range (searchImport, Imports, resolveImportVarConflicts) iterating in independently chosen arbitrary orders — identifiers and the aliased import list coincide (self-composition, schedule = iteration order as solver choice)","§2.6, §4 C14"),
 "C19":("partial: every implicit safety obligation (nil dereference, index/slice bounds, failed type assertion, explicit panic) and unwinding assertion of H.mock, H.vars, H.run, H.main, H.pairname: Mock/run/main/methodData never panic or recurse unboundedly within the harness bounds; diagnostics name the offending type; non-termination witnesses are replayed on the real CLI. Not claimed yet: resolveImportConflict over arbitrary path sets (H.imports)","§4 C19"),
 "C03":(G+"exactly one Call event on this method's own function field, same argument terms in order (variadic tail the same slice), results and panics passed through, no goroutine/recover","§4 C03"),
 "C04":(G+"len'=len+1, earlier records unchanged (skolem index), new record = arguments field by field, stored before the delegation, frame condition, snapshot invariant preserved by every operation incl. resets, element writes never inside a returned slice","§4 C04"),
 "C05":(G+"lock discipline on every path: each access to a record list under that method's lock (write lock for writes), element writes under exactly one write lock; schedule-variable encodings S.* still to be added","§4 C05"),
 "C06":(G+"lock set empty at the Call event, locks never nested, every lock released on normal and panicking paths","§4 C06"),
 "C07":(G+"nil function field: identifying panic before any effect (no -stub) / recorded, nothing invoked, zero value of every result type incl. generic and imported types (-stub)","§4 C07"),
 "C08":(G+"reset methods exist iff -with-resets (method sets of the generated SSA package); ResetMCalls leaves exactly M's list empty, ResetCalls every list; flag plumbing solver-checked in H.run/H.mock","§4 C08"),
 "C11":("H.imports: AddImport histories from the empty registry (8 shapes quick / 14 thorough: ≤ 3 packages, ≤ 3 symbolic path segments, symbolic names and source aliases, vendored spelling, then sync and the destination package) — one entry per canonical path, qualifiers unique and valid identifiers, non-conflicting source alias kept, destination package never imported, Imports() strictly sorted, termination by unwinding assertion with concretise-and-check; three genuine defect classes (two non-termination classes, invalid generated aliases) excluded by class predicates and re-established by recorded witnesses. H.mock adds: sync iff some mock has a method, every package a signature mentions is in the import list","§4 C11"),
 "C12":("H.vars: (*Mocker).methodData → AddVar sequences from SSA on 9 signature shapes × {same, other} destination with symbolic user-chosen names, package names and local type names: identifiers valid, pairwise distinct, distinct from every import qualifier, from mock/callInfo and from the type names the method uses; five genuine defect classes are excluded by class predicates and re-established by their recorded witnesses (known_findings.json)","§4 C12"),
 "C13":("H.vars (a user-chosen name that collides with nothing is kept verbatim, for all names) + H.exported: the real Exported closure (fetched from templateFuncs after executing template.init from SSA) equals an independent reference rule for every ASCII name up to the bound","§4 C13"),
 "C15":("-rm half: H.run shows for all flag values and all fault combinations that os.Remove(-out) is the first environment action and a non-not-exist error aborts before loading; the left-in-place fixed-point half is not claimed yet","§4 C15"),
 "C16":("partial: H.mock (for every formatter string the bytes written are goimports(T)/T/gofmt(T) with gofmt for every other value, formatters as uninterpreted functions, errors returned and nothing written) + H.header (the template constant starts with the marker line before the package clause) + H.run (a successful run writes exactly Mock's bytes; counterexamples replayed by regenerating over noop-formatted output). Not claimed: gofmt idempotence / goimports' declaration preservation (properties of go/format and x/tools)","§4 C16"),
 "C17":("H.run/H.main/H.mock: run(), main() and Mocker.Mock executed from SSA with every environment call allowed to fail; event trace checked against the all-or-nothing rules; counterexamples replayed on the real CLI with real faults","§4 C17"),
 "C18":("H.run: the set of file-system mutating events on every path of run() is {Remove(out), MkdirAll(dir(out)), WriteFile(out)} with exactly those targets, for all flags and fault combinations","§4 C18"),
 "C20":("H.pairname (parseInterfaceName for every string) + H.mock (k symbolic arguments over a model source package: one MockData per argument, in order, named as requested, wrapping exactly the go/types objects of the looked-up interface) + H.run (arguments reach Mock unchanged)","§4 C20"),
}
na_reason={
 "C01":"deciding Go type-checking of text produced by text/template + go/format cannot be encoded for the solver; its solver-decidable ingredients are claimed under C10/C11/C12/C02/C09 (DESIGN.md §4 C01)",
}
checks=[]
for p in props:
    if p not in claimed: continue
    txt,ref=claimed[p]
    checks.append({"property_id":p,"quick_cmd":f"./check {p} quick","thorough_cmd":f"./check {p} thorough","evidence_file":f"evidence/{p}.json",
      "replay_cmd_template":"sh {path}/replay.sh","engine":"moqsym",
      "level_claimed":{"category":"model_checking","text":txt,"design_ref":ref},
      "level_note":NOTE,"technique":TECH})
m={"version":1,"setup_cmd":"cd engine && GOFLAGS=-mod=mod GOPROXY=off go build -o bin/moqsym ./cmd/moqsym",
 "hooks":{"guard":"verif","enable":"none needed: checks load /repo's working tree as is (go/packages + go/ssa); replays use go test -overlay or the CLI built from /repo","baseline_off_cmd":"cd /repo && GOFLAGS=-mod=mod GOPROXY=off go test -vet=off -count=1 ./...","source_commits":[],"add_only":True},
 "engines":[{"name":"moqsym","path":"engine","serves_properties":sorted(claimed),"kind_free_text":"path-forking symbolic interpreter over go/ssa (re-execution under decision prefixes, 16 parallel workers) emitting SMT-LIB2 to cvc5; go/types model; CLI/fault replay; written for this task"}],
 "checks":checks,
 "not_applicable":[{"property_id":p,"reason":na_reason.get(p,"check not built yet (work in progress; see DESIGN.md §7)")} for p in props if p not in claimed],
 "notes":"see DESIGN.md; known findings in known_findings.json"}
json.dump(m,open('/verif/MANIFEST.json','w'),indent=1)
print("claimed:",sorted(claimed))
