#!/bin/sh
# usage: tools/runall.sh [quick|thorough]  — runs every claimed check, validates evidence, prints a summary
cd "$(dirname "$0")/.." || exit 2
TIER="${1:-quick}"
IDS=$(python3 -c "import json;print(' '.join(c['property_id'] for c in json.load(open('MANIFEST.json'))['checks']))")
mkdir -p /tmp/runall
for id in $IDS; do
  S=$(date +%s)
  ./check $id $TIER > /tmp/runall/$id.log 2>&1; RC=$?
  E=$(date +%s)
  V=$(grep -c "^VIOLATION" /tmp/runall/$id.log)
  K=$(grep -c "^KNOWN-FINDING" /tmp/runall/$id.log)
  I=$(grep -c "^INCONCLUSIVE" /tmp/runall/$id.log)
  OK=$(python3-vt -c "
import json,jsonschema,sys
try:
    jsonschema.validate(json.load(open('evidence/$id.json')),json.load(open('/root/.vp/EVIDENCE.schema.json'))); print('evidence-ok')
except Exception as e: print('EVIDENCE-BAD',str(e)[:80])")
  echo "$id rc=$RC violations=$V known=$K inconclusive=$I $((E-S))s $OK"
done
