#!/bin/sh
# usage: seedcheck_scratch.sh <seed-name> [tier] [extra moqsym args…]
# Applies a seed to a scratch worktree of /repo (not to /repo itself, so it can run while other checks
# use /repo) and runs the seed's property check against it with a scratch evidence directory.
set -u
SEED="$1"; TIER="${2:-quick}"; shift; [ $# -gt 0 ] && shift
PROP=$(echo "$SEED" | cut -d- -f1)
WT=/var/tmp/sr_$SEED; VD=/var/tmp/sv_$SEED
rm -rf "$VD"; git -C /repo worktree remove --force "$WT" 2>/dev/null
git -C /repo worktree add --detach "$WT" HEAD -q || exit 2
trap 'git -C /repo worktree remove --force "$WT"; rm -rf "$VD"' EXIT
git -C "$WT" apply /verif/seeded/$SEED/patch.diff || exit 2
mkdir -p "$VD"; cp /verif/known_findings.json "$VD"/
S=$(date +%s)
/verif/engine/bin/moqsym -prop "$PROP" -tier "$TIER" -repo "$WT" -verif "$VD" "$@" > /tmp/seedcheck_$SEED.log 2>&1
RC=$?
echo "$SEED rc=$RC $(( $(date +%s) - S ))s viol=$(grep -c '^VIOLATION' /tmp/seedcheck_$SEED.log) inconcl=$(grep -c '^INCONCLUSIVE' /tmp/seedcheck_$SEED.log) kf=$(grep -c '^KNOWN-FINDING' /tmp/seedcheck_$SEED.log)"
