#!/bin/sh
# usage: confirm_seed.sh <seed-dir> <name> <property>
# Confirms a seeded change in a fresh scratch worktree of /repo: it applies, builds, the repo's test
# suite passes as on the pristine tree, the demo fails with the change and passes without it.
set -u
SEED="$1"; NAME="$2"; PROP="$3"
export GOFLAGS=-mod=mod GOPROXY=off
WT=$(mktemp -d /tmp/cs_XXXXXX); rmdir "$WT"
git -C /repo worktree add --detach "$WT" HEAD -q || exit 2
trap 'git -C /repo worktree remove --force "$WT"' EXIT
LOG=$(mktemp /tmp/cslog_XXXXXX)
( cd "$WT" && sh "$SEED/demo.sh" "$WT" >"$LOG.pristine" 2>&1 ); PRISTINE=$?
git -C "$WT" apply "$SEED/patch.diff" || { echo "patch does not apply"; exit 2; }
( cd "$WT" && go build ./... ) || { echo "does not build"; exit 2; }
( cd "$WT" && go test -vet=off -count=1 ./... 2>&1 | grep -E "^(--- FAIL|FAIL|ok)" >"$LOG.tests" )
FAILS=$(grep -c "^--- FAIL" "$LOG.tests"); ONLY=$(grep "^--- FAIL" "$LOG.tests" | grep -vc TestGoGenerateVendoredPackages)
( cd "$WT" && sh "$SEED/demo.sh" "$WT" >"$LOG.mutant" 2>&1 ); MUTANT=$?
echo "seed=$NAME prop=$PROP tests_failing=$FAILS unexpected_failures=$ONLY demo_pristine_exit=$PRISTINE demo_mutant_exit=$MUTANT"
if [ "$ONLY" = 0 ] && [ "$PRISTINE" = 0 ] && [ "$MUTANT" != 0 ]; then
  D=/verif/seeded/$NAME; mkdir -p "$D"; cp -r "$SEED"/. "$D"/
  rm -f "$D"/tests_before.txt "$D"/tests_after.txt "$D"/*.log
  tail -5 "$LOG.mutant" > "$D/demo_with_change.tail"
  cat > "$D/meta.json" <<EOM
{
 "name": "$NAME",
 "breaks_property": "$PROP",
 "confirmed": "tools/confirm_seed.sh in a scratch worktree of /repo: patch applies and builds; go test -vet=off -count=1 ./... fails only TestGoGenerateVendoredPackages (as on the pristine tree); demo.sh exits $MUTANT with the change and $PRISTINE without it",
 "needs_to_manifest": "see notes.md"
}
EOM
  echo CONFIRMED
else
  echo NOT-CONFIRMED; tail -5 "$LOG.tests" "$LOG.mutant" "$LOG.pristine"
fi
rm -f "$LOG" "$LOG".*
