package exec

import (
	"fmt"
	"go/constant"
	"go/token"
	"go/types"
	"strings"

	"moqsym/smt"

	"golang.org/x/tools/go/ssa"
)

type frame struct {
	fn     *ssa.Function
	env    map[ssa.Value]Value
	defers []func()
	result Value
}

// CallFunc calls a function value with arguments.
func (ex *Exec) CallValue(fv Value, args []Value) Value {
	switch f := fv.(type) {
	case *ssa.Function:
		return ex.CallFn(f, args, nil)
	case *Closure:
		return ex.CallFn(f.Fn, args, f.Free)
	case *Native:
		return f.F(ex, args)
	case NilV:
		panic(&GoPanic{Msg: "call of nil function", Runtime: true})
	}
	ex.Inconclusive(fmt.Sprintf("call of unsupported function value %T", fv))
	return nil
}

// CallCatch calls fv and returns the subject's panic instead of propagating it.
func (ex *Exec) CallCatch(fv Value, args []Value) (ret Value, pan *GoPanic) {
	defer func() {
		if r := recover(); r != nil {
			if gp, ok := r.(*GoPanic); ok {
				pan = gp
				return
			}
			panic(r)
		}
	}()
	return ex.CallValue(fv, args), nil
}

func (ex *Exec) CallFn(fn *ssa.Function, args []Value, free []Value) Value {
	name := fn.String()
	if stub, ok := ex.LocalStubs[name]; ok {
		ex.Stats.Stubs[name]++
		return stub(ex, &CallInfo{Name: name, Args: args, Sig: fn.Signature})
	}
	if stub, ok := ex.Stubs[name]; ok { // external callee, or a summarised module function
		ex.Stats.Stubs[name]++
		return stub(ex, &CallInfo{Name: name, Args: args, Sig: fn.Signature})
	}
	if fn.Pkg == nil && fn.Synthetic != "" {
		// bound-method closures, thunks and wrappers: interpret the generated body
		if fn.Blocks == nil {
			ex.Inconclusive("no body for synthetic " + name)
		}
		return ex.run(fn, args, free)
	}
	if fn.Pkg != nil && ex.ModulePkg(fn.Pkg) && fn.Blocks != nil {
		return ex.run(fn, args, free)
	}
	if fn.Name() == "init" && fn.Pkg != nil && fn.Signature.Recv() == nil {
		return nil // initialisers of packages outside the module are not executed
	}
	if v, ok := ex.havoc(fn, args); ok {
		ex.Stats.Stubs["havoc "+name]++
		return v
	}
	ex.Inconclusive("unmodelled callee " + name)
	return nil
}

// purePkgs are std packages whose exported functions have no side effects: a function of these
// packages that has no precise stub is over-approximated by an uninterpreted function of its
// scalar arguments (any result is possible, equal arguments give equal results). This can only add
// behaviours, so a "holds" verdict stays sound; spurious counterexamples are filtered by replay.
var purePkgs = map[string]bool{"strings": true, "bytes": true, "strconv": true, "unicode": true, "unicode/utf8": true,
	"path": true, "path/filepath": true, "sort": true, "errors": true, "slices": true, "maps": true, "cmp": true}

// envReadFns are environment reads: arbitrary result, no effect on the file system.
var envReadFns = map[string]bool{"os.ReadFile": true, "os.Stat": true, "os.Lstat": true, "os.Getwd": true, "os.Getenv": true,
	"os.LookupEnv": true, "os.ReadDir": true, "io/ioutil.ReadFile": true, "os.Executable": true, "os.Hostname": true, "os.Getpid": true}

func (ex *Exec) havoc(fn *ssa.Function, args []Value) (Value, bool) {
	if fn.Pkg == nil || fn.Signature.Recv() != nil {
		return nil, false
	}
	pkg := fn.Pkg.Pkg.Path()
	full := pkg + "." + fn.Name()
	isEnv := envReadFns[full]
	if !purePkgs[pkg] && !isEnv {
		return nil, false
	}
	if pkg == "path/filepath" {
		switch fn.Name() {
		case "Join", "Dir", "Base", "Ext", "Clean", "IsAbs", "ToSlash", "FromSlash", "VolumeName", "Rel", "Split":
		default:
			return nil, false // Walk, Glob, Abs, EvalSymlinks touch the file system
		}
	}
	var argTerms []*smt.Term
	var sorts []string
	scalar := true
	for _, a := range args {
		switch x := a.(type) {
		case *smt.Term:
			argTerms, sorts = append(argTerms, x), append(sorts, x.Sort)
		case Bytes:
			argTerms, sorts = append(argTerms, x.S), append(sorts, x.S.Sort)
		case Opaque:
			argTerms, sorts = append(argTerms, x.T), append(sorts, x.T.Sort)
		case Slice:
			if x.Arr != nil {
				scalar = false
			}
		case NilV, Iface:
		default:
			scalar = false
		}
	}
	if isEnv {
		ex.Emit("EnvRead", full, args...)
		scalar = false // the environment may answer differently each time
	}
	res := fn.Signature.Results()
	one := func(i int, t types.Type) (Value, bool) {
		name := fmt.Sprintf("havoc$%s$%d", full, i)
		mk := func(sort string) *smt.Term {
			if scalar && len(argTerms) > 0 {
				return ex.C.UF(name, sorts, sort, argTerms...)
			}
			return ex.C.Fresh(name, sort)
		}
		switch u := t.Underlying().(type) {
		case *types.Basic:
			switch {
			case u.Info()&types.IsString != 0:
				return mk(smt.String), true
			case u.Info()&types.IsBoolean != 0:
				return mk(smt.Bool), true
			case u.Info()&types.IsInteger != 0:
				return mk(smt.Int), true
			}
		case *types.Slice:
			if b, ok := u.Elem().Underlying().(*types.Basic); ok && b.Kind() == types.Uint8 {
				return Bytes{S: mk(smt.String)}, true
			}
		case *types.Interface:
			if t.String() == "error" {
				if ex.Branch(ex.C.Fresh(name+"$fails", smt.Bool)) {
					return ex.NewError(ex.C.Fresh(name+"$msg", smt.String), "havoc"), true
				}
				return Iface{}, true
			}
		}
		// any other result type: an opaque value (usable only as an argument of further pure calls)
		return Opaque{T: mk(smt.Val)}, true
	}
	switch res.Len() {
	case 0:
		return nil, true
	case 1:
		return one(0, res.At(0).Type())
	}
	tp := make(Tuple, res.Len())
	for i := range tp {
		v, ok := one(i, res.At(i).Type())
		if !ok {
			return nil, false
		}
		tp[i] = v
	}
	return tp, true
}

// RunBody interprets fn's SSA body directly, bypassing stubs registered under its name (used by
// harness wrappers that check an invariant at every call and then run the real function).
func (ex *Exec) RunBody(fn *ssa.Function, args []Value) Value { return ex.run(fn, args, nil) }

func (ex *Exec) run(fn *ssa.Function, args []Value, free []Value) (ret Value) {
	ex.depth++
	if ex.depth > ex.Stats.MaxDepth {
		ex.Stats.MaxDepth = ex.depth
	}
	maxd := ex.MaxDepth
	if maxd == 0 {
		maxd = 64
	}
	if ex.depth > maxd {
		ex.depth--
		var stack []string
		for _, f := range ex.callStack {
			stack = append(stack, shortFn(f))
		}
		panic(&PathEnd{Kind: "steps", Msg: fmt.Sprintf("unwinding assertion failed: call depth %d exceeded in %s", maxd, fn), Stack: stack})
	}
	ex.callStack = append(ex.callStack, fn)
	ex.Stats.Funcs[shortFn(fn)]++
	fr := &frame{fn: fn, env: map[ssa.Value]Value{}}
	defer func() {
		ex.callStack = ex.callStack[:len(ex.callStack)-1]
		ex.depth--
	}()
	if len(args) != len(fn.Params) {
		ex.Inconclusive(fmt.Sprintf("arity mismatch calling %s: %d args for %d params", fn, len(args), len(fn.Params)))
	}
	for i, p := range fn.Params {
		fr.env[p] = args[i]
	}
	for i, fv := range fn.FreeVars {
		fr.env[fv] = free[i]
	}
	// panics of the subject run the deferred calls of this frame
	defer func() {
		if r := recover(); r != nil {
			gp, ok := r.(*GoPanic)
			if !ok {
				panic(r)
			}
			if gp.Stack == nil {
				for _, f := range ex.callStack {
					gp.Stack = append(gp.Stack, shortFn(f))
				}
			}
			prev := ex.panicking
			ex.panicking = gp
			ex.runDefers(fr)
			ex.panicking = prev
			if gp.recovered {
				if fn.Recover != nil {
					ret = ex.runBlocks(fr, fn.Recover)
				} else {
					ret = ex.zeroResults(fn)
				}
				return
			}
			panic(gp)
		}
	}()
	return ex.runBlocks(fr, fn.Blocks[0])
}

func (ex *Exec) zeroResults(fn *ssa.Function) Value {
	res := fn.Signature.Results()
	switch res.Len() {
	case 0:
		return nil
	case 1:
		return ex.Zero(res.At(0).Type())
	}
	return ex.Zero(res)
}

func (ex *Exec) runDefers(fr *frame) {
	for len(fr.defers) > 0 {
		d := fr.defers[len(fr.defers)-1]
		fr.defers = fr.defers[:len(fr.defers)-1]
		d()
	}
}

func (ex *Exec) runBlocks(fr *frame, b *ssa.BasicBlock) Value {
	var prev *ssa.BasicBlock
	for {
		var next *ssa.BasicBlock
		for _, ins := range b.Instrs {
			ex.steps++
			max := ex.MaxSteps
			if max == 0 {
				max = 2_000_000
			}
			if ex.steps > max {
				panic(&PathEnd{Kind: "steps", Msg: fmt.Sprintf("unwinding assertion failed: step budget %d exhausted in %s", max, fr.fn)})
			}
			switch i := ins.(type) {
			case *ssa.Phi:
				for k, p := range b.Preds {
					if p == prev {
						fr.env[i] = ex.get(fr, i.Edges[k])
						break
					}
				}
			case *ssa.Jump:
				next = b.Succs[0]
			case *ssa.If:
				c := ex.get(fr, i.Cond).(*smt.Term)
				if ex.Branch(c) {
					next = b.Succs[0]
				} else {
					next = b.Succs[1]
				}
			case *ssa.Return:
				switch len(i.Results) {
				case 0:
					return nil
				case 1:
					return ex.get(fr, i.Results[0])
				}
				t := make(Tuple, len(i.Results))
				for k, r := range i.Results {
					t[k] = ex.get(fr, r)
				}
				return t
			case *ssa.Panic:
				v := ex.get(fr, i.X)
				panic(&GoPanic{Val: v, Msg: ex.Render(v)})
			case *ssa.RunDefers:
				ex.runDefers(fr)
			default:
				ex.instr(fr, ins)
			}
		}
		if next == nil {
			ex.Inconclusive("block without terminator in " + fr.fn.String())
		}
		prev, b = b, next
	}
}

// Render gives a best-effort string for a value (panic messages).
func (ex *Exec) Render(v Value) string {
	switch x := v.(type) {
	case Iface:
		if x.T == nil {
			return "<nil>"
		}
		return ex.Render(x.V)
	case *smt.Term:
		if x.IsConst && x.Sort == smt.String {
			return x.S
		}
		return x.String()
	case *ErrObj:
		return ex.Render(x.Msg)
	}
	return fmt.Sprintf("%T", v)
}

func (ex *Exec) get(fr *frame, v ssa.Value) Value {
	switch x := v.(type) {
	case *ssa.Const:
		return ex.constVal(x)
	case *ssa.Function:
		return x
	case *ssa.Global:
		return ex.globalLoc(x)
	case *ssa.Builtin:
		return x
	}
	r, ok := fr.env[v]
	if !ok {
		ex.Inconclusive(fmt.Sprintf("unbound SSA value %s (%T) in %s", v.Name(), v, fr.fn))
	}
	return r
}

func (ex *Exec) globalLoc(g *ssa.Global) Loc {
	if l, ok := ex.Globals[g]; ok {
		return l
	}
	name := g.Pkg.Pkg.Path() + "." + g.Name()
	if gen, ok := ex.GlobalGen[name]; ok {
		l := &Cell{V: gen(ex), Note: name}
		ex.Globals[g] = l
		return l
	}
	if g.Pkg != nil && ex.ModulePkg(g.Pkg) {
		l := ex.NewLoc(g.Type().(*types.Pointer).Elem())
		ex.Globals[g] = l
		return l
	}
	ex.Inconclusive("unmodelled global " + name)
	return nil
}

func (ex *Exec) constVal(c *ssa.Const) Value {
	t := c.Type()
	if c.Value == nil {
		return ex.Zero(t)
	}
	if _, isTP := t.(*types.TypeParam); isTP {
		// go/ssa writes the zero value of a type parameter with a numeric/string core type as 0:T / "":T
		isZero := false
		switch c.Value.Kind() {
		case constant.Int, constant.Float:
			isZero = constant.Sign(c.Value) == 0
		case constant.String:
			isZero = constant.StringVal(c.Value) == ""
		case constant.Bool:
			isZero = !constant.BoolVal(c.Value)
		}
		if isZero {
			return ex.Zero(t)
		}
		ex.Inconclusive("non-zero constant of type-parameter type")
	}
	switch c.Value.Kind() {
	case constant.Bool:
		return ex.C.BoolC(constant.BoolVal(c.Value))
	case constant.String:
		return ex.C.StrC(constant.StringVal(c.Value))
	case constant.Int:
		n, ok := constant.Int64Val(c.Value)
		if !ok {
			u, _ := constant.Uint64Val(c.Value)
			n = int64(u)
		}
		return ex.C.IntC(n)
	}
	ex.Inconclusive("constant of kind " + c.Value.Kind().String())
	return nil
}

func (ex *Exec) instr(fr *frame, ins ssa.Instruction) {
	switch i := ins.(type) {
	case *ssa.DebugRef:
	case *ssa.Alloc:
		fr.env[i] = ex.NewLoc(i.Type().(*types.Pointer).Elem())
	case *ssa.Store:
		addr := ex.get(fr, i.Addr)
		l := ex.deref(addr, "store")
		l.Store(ex, ex.get(fr, i.Val))
	case *ssa.UnOp:
		fr.env[i] = ex.unop(fr, i)
	case *ssa.BinOp:
		fr.env[i] = ex.binop(i.Op, ex.get(fr, i.X), ex.get(fr, i.Y), i.X.Type())
	case *ssa.FieldAddr:
		base := ex.deref(ex.get(fr, i.X), "field address")
		sl, ok := base.(*StructLoc)
		if !ok {
			if fa, ok := base.(FieldAddresser); ok {
				fr.env[i] = fa.FieldAddr(ex, i.Field)
				return
			}
			ex.Inconclusive(fmt.Sprintf("FieldAddr on %T", base))
		}
		fr.env[i] = sl.F[i.Field]
	case *ssa.Field:
		s, ok := ex.get(fr, i.X).(*Struct)
		if !ok {
			ex.Inconclusive(fmt.Sprintf("Field on %T", ex.get(fr, i.X)))
		}
		fr.env[i] = s.F[i.Field]
	case *ssa.IndexAddr:
		fr.env[i] = ex.indexAddr(ex.get(fr, i.X), ex.get(fr, i.Index))
	case *ssa.Index:
		x := ex.get(fr, i.X)
		idx := ex.get(fr, i.Index).(*smt.Term)
		switch s := x.(type) {
		case *Struct:
			if !idx.IsConst {
				ex.Inconclusive("symbolic array index")
			}
			if idx.I < 0 || int(idx.I) >= len(s.F) {
				panic(&GoPanic{Msg: "index out of range", Runtime: true})
			}
			fr.env[i] = s.F[idx.I]
		default:
			ex.Inconclusive(fmt.Sprintf("Index on %T", x))
		}
	case *ssa.Lookup:
		fr.env[i] = ex.lookup(i, ex.get(fr, i.X), ex.get(fr, i.Index))
	case *ssa.Slice:
		fr.env[i] = ex.slice(fr, i)
	case *ssa.MakeSlice:
		n := ex.get(fr, i.Len).(*smt.Term)
		c := ex.get(fr, i.Cap).(*smt.Term)
		if !n.IsConst || !c.IsConst {
			ex.Inconclusive("MakeSlice with symbolic length")
		}
		et := i.Type().Underlying().(*types.Slice).Elem()
		arr := &ArrLoc{E: make([]Loc, c.I)}
		for k := range arr.E {
			arr.E[k] = ex.NewLoc(et)
		}
		fr.env[i] = Slice{Arr: arr, Len: int(n.I), Cap: int(c.I)}
	case *ssa.MakeMap:
		fr.env[i] = &MapObj{VT: i.Type().Underlying().(*types.Map).Elem()}
	case *ssa.MapUpdate:
		ex.mapUpdate(ex.get(fr, i.Map), ex.get(fr, i.Key), ex.get(fr, i.Value))
	case *ssa.MakeClosure:
		c := &Closure{Fn: i.Fn.(*ssa.Function)}
		for _, b := range i.Bindings {
			c.Free = append(c.Free, ex.get(fr, b))
		}
		fr.env[i] = c
	case *ssa.MakeInterface:
		fr.env[i] = Iface{T: i.X.Type(), V: ex.get(fr, i.X)}
	case *ssa.ChangeInterface:
		fr.env[i] = ex.get(fr, i.X)
	case *ssa.ChangeType:
		fr.env[i] = ex.get(fr, i.X)
	case *ssa.Convert:
		fr.env[i] = ex.convert(ex.get(fr, i.X), i.X.Type(), i.Type())
	case *ssa.TypeAssert:
		fr.env[i] = ex.typeAssert(i, ex.get(fr, i.X))
	case *ssa.Extract:
		fr.env[i] = ex.get(fr, i.Tuple).(Tuple)[i.Index]
	case *ssa.Range:
		fr.env[i] = ex.rangeStart(ex.get(fr, i.X))
	case *ssa.Next:
		fr.env[i] = ex.rangeNext(ex.get(fr, i.Iter).(*rangeIter), i)
	case *ssa.Call:
		fr.env[i] = ex.call(fr, i, &i.Call)
	case *ssa.Defer:
		call := i.Call
		fn, args := ex.resolveCall(fr, &call)
		fr.defers = append(fr.defers, func() { fn(args) })
		ex.Emit("Defer", fr.fn.String())
	case *ssa.Go:
		ex.Emit("Go", fr.fn.String())
		ex.Inconclusive("go statement in " + fr.fn.String())
	default:
		ex.Inconclusive(fmt.Sprintf("unsupported SSA instruction %T in %s", ins, fr.fn))
	}
}

// FieldAddresser lets harness-defined locations resolve field addresses themselves.
type FieldAddresser interface {
	FieldAddr(ex *Exec, field int) Loc
}

func (ex *Exec) deref(p Value, what string) Loc {
	switch l := p.(type) {
	case Loc:
		return l
	case NilV:
		panic(&GoPanic{Msg: "nil pointer dereference (" + what + ")", Runtime: true})
	}
	ex.Inconclusive(fmt.Sprintf("dereference of %T (%s)", p, what))
	return nil
}

func (ex *Exec) unop(fr *frame, i *ssa.UnOp) Value {
	x := ex.get(fr, i.X)
	switch i.Op {
	case token.MUL:
		return ex.deref(x, "load").Load(ex)
	case token.NOT:
		return ex.C.Not(x.(*smt.Term))
	case token.SUB:
		return ex.C.Sub(ex.C.IntC(0), x.(*smt.Term))
	}
	ex.Inconclusive("unary " + i.Op.String())
	return nil
}

// ValueEq returns a Bool term for Go's == on two values.
func (ex *Exec) ValueEq(a, b Value) *smt.Term {
	if eq, ok := a.(Equaler); ok {
		return eq.EqualTo(ex, b)
	}
	if eq, ok := b.(Equaler); ok {
		return eq.EqualTo(ex, a)
	}
	an, aknown := IsNil(a)
	bn, bknown := IsNil(b)
	if aknown && bknown && (an || bn) {
		return ex.C.BoolC(an && bn)
	}
	switch x := a.(type) {
	case *smt.Term:
		y, ok := b.(*smt.Term)
		if !ok {
			return ex.C.False()
		}
		return ex.C.Eq(x, y)
	case Opaque:
		if y, ok := b.(Opaque); ok {
			return ex.C.Eq(x.T, y.T)
		}
		if eq, ok := b.(Equaler); ok {
			return eq.EqualTo(ex, a)
		}
		return ex.C.False()
	case Iface:
		y, ok := b.(Iface)
		if !ok {
			return ex.C.False()
		}
		if !types.Identical(x.T, y.T) {
			return ex.C.False()
		}
		return ex.ValueEq(x.V, y.V)
	case *Struct:
		y, ok := b.(*Struct)
		if !ok || len(x.F) != len(y.F) {
			return ex.C.False()
		}
		var cs []*smt.Term
		for k := range x.F {
			cs = append(cs, ex.ValueEq(x.F[k], y.F[k]))
		}
		return ex.C.And(cs...)
	case Equaler:
		return x.EqualTo(ex, b)
	}
	if eq, ok := b.(Equaler); ok {
		return eq.EqualTo(ex, a)
	}
	// pointers and other reference values: identity
	defer func() {
		if r := recover(); r != nil {
			ex.Inconclusive(fmt.Sprintf("comparison of %T and %T", a, b))
		}
	}()
	return ex.C.BoolC(a == b)
}

// Equaler lets harness-defined values define ==.
type Equaler interface {
	EqualTo(ex *Exec, other Value) *smt.Term
}

func (ex *Exec) binop(op token.Token, x, y Value, xt types.Type) Value {
	switch op {
	case token.EQL:
		return ex.ValueEq(x, y)
	case token.NEQ:
		return ex.C.Not(ex.ValueEq(x, y))
	}
	a, ok1 := x.(*smt.Term)
	b, ok2 := y.(*smt.Term)
	if !ok1 || !ok2 {
		ex.Inconclusive(fmt.Sprintf("binop %s on %T, %T", op, x, y))
	}
	if a.Sort == smt.String {
		switch op {
		case token.ADD:
			return ex.C.Concat(a, b)
		case token.LSS:
			return ex.C.StrLt(a, b)
		case token.GTR:
			return ex.C.StrLt(b, a)
		case token.LEQ:
			return ex.C.Not(ex.C.StrLt(b, a))
		case token.GEQ:
			return ex.C.Not(ex.C.StrLt(a, b))
		}
	}
	if a.Sort == smt.Int {
		switch op {
		case token.ADD:
			return ex.intRange(ex.C.Add(a, b))
		case token.SUB:
			return ex.intRange(ex.C.Sub(a, b))
		case token.MUL:
			return ex.intRange(ex.C.Mul(a, b))
		case token.QUO:
			if a.IsConst && b.IsConst && b.I != 0 {
				return ex.C.IntC(a.I / b.I)
			}
		case token.REM:
			if a.IsConst && b.IsConst && b.I != 0 {
				return ex.C.IntC(a.I % b.I)
			}
		case token.LSS:
			return ex.C.Lt(a, b)
		case token.LEQ:
			return ex.C.Le(a, b)
		case token.GTR:
			return ex.C.Gt(a, b)
		case token.GEQ:
			return ex.C.Ge(a, b)
		case token.OR:
			if a.IsConst && b.IsConst {
				return ex.C.IntC(a.I | b.I)
			}
		case token.AND:
			if a.IsConst && b.IsConst {
				return ex.C.IntC(a.I & b.I)
			}
		case token.SHL:
			if a.IsConst && b.IsConst {
				return ex.C.IntC(a.I << uint(b.I))
			}
		}
	}
	if a.Sort == smt.Bool {
		switch op {
		case token.AND, token.LAND:
			return ex.C.And(a, b)
		case token.OR, token.LOR:
			return ex.C.Or(a, b)
		}
	}
	ex.Inconclusive(fmt.Sprintf("binop %s on sorts %s,%s", op, a.Sort, b.Sort))
	return nil
}

// intRange discharges the no-wrap obligation for a symbolic arithmetic result.
func (ex *Exec) intRange(t *smt.Term) *smt.Term {
	if t.IsConst {
		return t
	}
	lim := ex.C.IntC(1 << 62)
	ex.Safety(ex.C.And(ex.C.Lt(t, lim), ex.C.Gt(t, ex.C.Sub(ex.C.IntC(0), lim))), "integer result stays in int64 range")
	return t
}

func (ex *Exec) indexAddr(x, idx Value) Value {
	it := idx.(*smt.Term)
	switch s := x.(type) {
	case Slice:
		if !it.IsConst {
			ex.Inconclusive("symbolic slice index")
		}
		if it.I < 0 || int(it.I) >= s.Len {
			panic(&GoPanic{Msg: fmt.Sprintf("index out of range [%d] with length %d", it.I, s.Len), Runtime: true})
		}
		return s.Arr.E[s.Off+int(it.I)]
	case *ArrLoc:
		if !it.IsConst {
			ex.Inconclusive("symbolic array index")
		}
		if it.I < 0 || int(it.I) >= len(s.E) {
			panic(&GoPanic{Msg: "index out of range", Runtime: true})
		}
		return s.E[it.I]
	case NilV:
		panic(&GoPanic{Msg: "nil pointer dereference (index)", Runtime: true})
	case Indexer:
		return s.IndexAddr(ex, it)
	}
	ex.Inconclusive(fmt.Sprintf("IndexAddr on %T", x))
	return nil
}

// Indexer lets harness-defined slices resolve element addresses.
type Indexer interface {
	IndexAddr(ex *Exec, idx *smt.Term) Loc
}

func (ex *Exec) lookup(i *ssa.Lookup, x, key Value) Value {
	switch m := x.(type) {
	case *MapObj:
		v, ok := ex.MapGet(m, key)
		if i.CommaOk {
			return Tuple{v, ex.C.BoolC(ok)}
		}
		return v
	case NilV:
		vt := i.X.Type().Underlying().(*types.Map).Elem()
		if i.CommaOk {
			return Tuple{ex.Zero(vt), ex.C.False()}
		}
		return ex.Zero(vt)
	case *smt.Term: // string index
		ex.Inconclusive("string indexing")
	}
	ex.Inconclusive(fmt.Sprintf("Lookup on %T", x))
	return nil
}

// MapGet looks a key up, forking on equality with each existing symbolic key.
func (ex *Exec) MapGet(m *MapObj, key Value) (Value, bool) {
	if m == nil {
		return nil, false
	}
	for k := range m.Keys {
		if ex.Branch(ex.ValueEq(m.Keys[k], key)) {
			return m.Vals[k], true
		}
	}
	return ex.Zero(m.VT), false
}

func (ex *Exec) mapUpdate(mv, key, val Value) {
	m, ok := mv.(*MapObj)
	if !ok || m == nil {
		if _, isNil := mv.(NilV); isNil || (ok && m == nil) {
			panic(&GoPanic{Msg: "assignment to entry in nil map", Runtime: true})
		}
		ex.Inconclusive(fmt.Sprintf("MapUpdate on %T", mv))
	}
	for k := range m.Keys {
		if ex.Branch(ex.ValueEq(m.Keys[k], key)) {
			m.Vals[k] = val
			return
		}
	}
	m.Keys = append(m.Keys, key)
	m.Vals = append(m.Vals, val)
}

type rangeIter struct {
	m     *MapObj
	order []int
	pos   int
}

// OrderMode: when set, map iteration order is a nondeterministic permutation.
func (ex *Exec) rangeStart(x Value) Value {
	switch m := x.(type) {
	case *MapObj:
		it := &rangeIter{m: m}
		n := 0
		if m != nil {
			n = len(m.Keys)
		}
		rest := make([]int, n)
		for k := range rest {
			rest[k] = k
		}
		if om, _ := ex.User["orderMode"].(bool); om {
			ex.Emit("MapRange", ex.where())
			for len(rest) > 0 {
				c := ex.ChooseN(len(rest))
				it.order = append(it.order, rest[c])
				rest = append(rest[:c:c], rest[c+1:]...)
			}
		} else {
			it.order = rest
		}
		return it
	case NilV:
		return &rangeIter{}
	}
	ex.Inconclusive(fmt.Sprintf("range over %T", x))
	return nil
}

func (ex *Exec) rangeNext(it *rangeIter, i *ssa.Next) Value {
	if it.pos >= len(it.order) {
		tt := i.Type().(*types.Tuple)
		return Tuple{ex.C.False(), ex.zeroOrNil(tt.At(1).Type()), ex.zeroOrNil(tt.At(2).Type())}
	}
	k := it.order[it.pos]
	it.pos++
	return Tuple{ex.C.True(), it.m.Keys[k], it.m.Vals[k]}
}

func (ex *Exec) zeroOrNil(t types.Type) Value {
	if b, ok := t.(*types.Basic); ok && b.Kind() == types.Invalid {
		return nil
	}
	return ex.Zero(t)
}

func (ex *Exec) slice(fr *frame, i *ssa.Slice) Value {
	x := ex.get(fr, i.X)
	var lo, hi *smt.Term
	if i.Low != nil {
		lo = ex.get(fr, i.Low).(*smt.Term)
	}
	if i.High != nil {
		hi = ex.get(fr, i.High).(*smt.Term)
	}
	switch s := x.(type) {
	case *smt.Term: // string
		n := ex.C.Len(s)
		if lo == nil {
			lo = ex.C.IntC(0)
		}
		if hi == nil {
			hi = n
		}
		ex.Safety(ex.C.And(ex.C.Le(ex.C.IntC(0), lo), ex.C.Le(lo, hi), ex.C.Le(hi, n)),
			fmt.Sprintf("string slice bounds [%s:%s]", lo, hi))
		if s.IsConst && lo.IsConst && hi.IsConst {
			return ex.C.StrC(s.S[lo.I:hi.I])
		}
		return ex.C.Substr(s, lo, ex.C.Sub(hi, lo))
	case Slice:
		l, h := 0, s.Len
		if lo != nil {
			if !lo.IsConst {
				ex.Inconclusive("symbolic slice bound")
			}
			l = int(lo.I)
		}
		if hi != nil {
			if !hi.IsConst {
				ex.Inconclusive("symbolic slice bound")
			}
			h = int(hi.I)
		}
		if i.Max != nil {
			ex.Inconclusive("3-index slice")
		}
		if l < 0 || l > h || h > s.Cap {
			panic(&GoPanic{Msg: fmt.Sprintf("slice bounds out of range [%d:%d] with capacity %d", l, h, s.Cap), Runtime: true})
		}
		if s.Arr == nil {
			return Slice{}
		}
		return Slice{Arr: s.Arr, Off: s.Off + l, Len: h - l, Cap: s.Cap - l}
	case *ArrLoc: // pointer to array
		l, h := 0, len(s.E)
		if lo != nil {
			l = int(lo.I)
		}
		if hi != nil {
			h = int(hi.I)
		}
		if l < 0 || l > h || h > len(s.E) {
			panic(&GoPanic{Msg: "slice bounds out of range", Runtime: true})
		}
		return Slice{Arr: s, Off: l, Len: h - l, Cap: len(s.E) - l}
	case Slicer:
		return s.SliceOp(ex, lo, hi)
	}
	ex.Inconclusive(fmt.Sprintf("Slice on %T", x))
	return nil
}

// Slicer lets harness-defined slices implement s[lo:hi].
type Slicer interface {
	SliceOp(ex *Exec, lo, hi *smt.Term) Value
}

func (ex *Exec) convert(x Value, from, to types.Type) Value {
	fu, tu := from.Underlying(), to.Underlying()
	if fb, ok := fu.(*types.Basic); ok {
		if tb, ok := tu.(*types.Basic); ok {
			if fb.Info()&types.IsInteger != 0 && tb.Info()&types.IsInteger != 0 {
				return x
			}
			if fb.Info()&types.IsString != 0 && tb.Info()&types.IsString != 0 {
				return x
			}
		}
		if _, ok := tu.(*types.Slice); ok && fb.Info()&types.IsString != 0 {
			return Bytes{S: x.(*smt.Term)}
		}
	}
	if _, ok := fu.(*types.Slice); ok {
		if tb, ok := tu.(*types.Basic); ok && tb.Info()&types.IsString != 0 {
			if b, ok := x.(Bytes); ok {
				return b.S
			}
		}
	}
	ex.Inconclusive(fmt.Sprintf("conversion %s -> %s", from, to))
	return nil
}

// Bytes is a []byte whose content is a string term (never indexed by the subject).
type Bytes struct{ S *smt.Term }

func (ex *Exec) typeAssert(i *ssa.TypeAssert, x Value) Value {
	iv, ok := x.(Iface)
	if !ok {
		ex.Inconclusive(fmt.Sprintf("TypeAssert on %T", x))
	}
	var holds bool
	if iv.T != nil {
		if types.IsInterface(i.AssertedType) {
			if tt, ok := ex.User["implements"].(func(dyn, iface types.Type) bool); ok {
				holds = tt(iv.T, i.AssertedType)
			} else {
				holds = types.Implements(iv.T, i.AssertedType.Underlying().(*types.Interface))
			}
		} else {
			holds = types.Identical(iv.T, i.AssertedType)
		}
	}
	var res Value
	if holds {
		if types.IsInterface(i.AssertedType) {
			res = iv
		} else {
			res = iv.V
		}
	} else {
		res = ex.Zero(i.AssertedType)
	}
	if i.CommaOk {
		return Tuple{res, ex.C.BoolC(holds)}
	}
	if !holds {
		dyn := "nil"
		if iv.T != nil {
			dyn = iv.T.String()
		}
		panic(&GoPanic{Msg: fmt.Sprintf("interface conversion: interface is %s, not %s", dyn, i.AssertedType), Runtime: true})
	}
	return res
}

// resolveCall evaluates callee and arguments of a call and returns a thunk.
func (ex *Exec) resolveCall(fr *frame, c *ssa.CallCommon) (func(args []Value) Value, []Value) {
	var args []Value
	if c.IsInvoke() {
		recv := ex.get(fr, c.Value)
		for _, a := range c.Args {
			args = append(args, ex.get(fr, a))
		}
		return func(args []Value) Value { return ex.invoke(recv, c, args) }, args
	}
	for _, a := range c.Args {
		args = append(args, ex.get(fr, a))
	}
	switch f := c.Value.(type) {
	case *ssa.Builtin:
		return func(args []Value) Value { return ex.builtin(f, c, args) }, args
	}
	fv := ex.get(fr, c.Value)
	return func(args []Value) Value {
		if dc, ok := fv.(DynCallee); ok {
			return dc.CallDyn(ex, c, args)
		}
		return ex.CallValue(fv, args)
	}, args
}

// DynCallee is a harness-defined function value (e.g. a symbolic func field).
type DynCallee interface {
	CallDyn(ex *Exec, c *ssa.CallCommon, args []Value) Value
}

func (ex *Exec) call(fr *frame, _ ssa.Instruction, c *ssa.CallCommon) Value {
	fn, args := ex.resolveCall(fr, c)
	return fn(args)
}

func (ex *Exec) invoke(recv Value, c *ssa.CallCommon, args []Value) Value {
	iv, ok := recv.(Iface)
	if !ok {
		ex.Inconclusive(fmt.Sprintf("invoke on %T", recv))
	}
	if iv.T == nil {
		panic(&GoPanic{Msg: "nil interface method call " + c.Method.Name(), Runtime: true})
	}
	// engine-defined dynamic values
	if d, ok := iv.V.(Invoker); ok {
		ex.Stats.Stubs["invoke "+c.Method.FullName()]++
		return d.Invoke(ex, c.Method.Name(), args)
	}
	// dynamic type with methods in the program
	sel := ex.Prog.MethodSets.MethodSet(iv.T).Lookup(c.Method.Pkg(), c.Method.Name())
	if sel == nil {
		ex.Inconclusive("no method " + c.Method.Name() + " on " + iv.T.String())
	}
	m := ex.Prog.MethodValue(sel)
	if m == nil {
		ex.Inconclusive("abstract method " + c.Method.Name())
	}
	return ex.CallFn(m, append([]Value{iv.V}, args...), nil)
}

// Invoker is implemented by engine-defined objects that sit behind Go interfaces.
type Invoker interface {
	Invoke(ex *Exec, method string, args []Value) Value
}

func (ex *Exec) builtin(b *ssa.Builtin, c *ssa.CallCommon, args []Value) Value {
	switch b.Name() {
	case "len":
		switch s := args[0].(type) {
		case *smt.Term:
			return ex.C.Len(s)
		case Slice:
			return ex.C.IntC(int64(s.Len))
		case *MapObj:
			if s == nil {
				return ex.C.IntC(0)
			}
			return ex.C.IntC(int64(len(s.Keys)))
		case NilV:
			return ex.C.IntC(0)
		case Lener:
			return s.LenTerm(ex)
		}
	case "cap":
		switch s := args[0].(type) {
		case Slice:
			return ex.C.IntC(int64(s.Cap))
		}
	case "append":
		if ap, ok := args[0].(Appender); ok {
			return ap.Append(ex, args[1])
		}
		s, ok1 := args[0].(Slice)
		t, ok2 := args[1].(Slice)
		if ok1 && ok2 {
			et := c.Args[0].Type().Underlying().(*types.Slice).Elem()
			if s.Len+t.Len <= s.Cap && s.Arr != nil {
				for k := 0; k < t.Len; k++ {
					s.Arr.E[s.Off+s.Len+k].Store(ex, t.Arr.E[t.Off+k].Load(ex))
				}
				s.Len += t.Len
				return s
			}
			n := s.Len + t.Len
			arr := &ArrLoc{E: make([]Loc, n)}
			for k := 0; k < n; k++ {
				arr.E[k] = ex.NewLoc(et)
				if k < s.Len {
					arr.E[k].Store(ex, s.Arr.E[s.Off+k].Load(ex))
				} else {
					arr.E[k].Store(ex, t.Arr.E[t.Off+k-s.Len].Load(ex))
				}
			}
			return Slice{Arr: arr, Len: n, Cap: n}
		}
	case "recover":
		if ex.panicking != nil {
			ex.panicking.recovered = true
			ex.Emit("Recover", ex.where())
			if v, ok := ex.panicking.Val.(Iface); ok {
				return v
			}
			return Iface{T: types.Typ[types.String], V: ex.C.StrC(ex.panicking.Msg)}
		}
		return Iface{}
	}
	ex.Inconclusive(fmt.Sprintf("builtin %s on %T", b.Name(), args[0]))
	return nil
}

type Lener interface{ LenTerm(ex *Exec) *smt.Term }
type Appender interface {
	Append(ex *Exec, more Value) Value
}

// ErrObj is the dynamic value behind error interfaces created by stubs.
type ErrObj struct {
	Msg  *smt.Term
	Kind string
	Wrap Value
}

var errType types.Type

// ErrType returns a stable types.Type used as dynamic type of ErrObj.
func ErrType() types.Type {
	if errType == nil {
		errType = types.NewNamed(types.NewTypeName(token.NoPos, nil, "engineError", nil), types.NewStruct(nil, nil), nil)
	}
	return errType
}

func (e *ErrObj) Invoke(ex *Exec, method string, args []Value) Value {
	if method == "Error" {
		return e.Msg
	}
	ex.Inconclusive("ErrObj." + method)
	return nil
}

func (ex *Exec) NewError(msg *smt.Term, kind string) Iface {
	return Iface{T: ErrType(), V: &ErrObj{Msg: msg, Kind: kind}}
}

// GoString helps harnesses read constant strings.
func ConstStr(v Value) (string, bool) {
	t, ok := v.(*smt.Term)
	if !ok || !t.IsConst || t.Sort != smt.String {
		return "", false
	}
	return t.S, true
}

func trimPkg(s string) string { return strings.TrimPrefix(s, "github.com/matryer/moq/") }
