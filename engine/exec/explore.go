package exec

import (
	"fmt"
	"go/types"
	"os"
	"sort"
	"strings"
	"sync"
	"time"

	"moqsym/smt"

	"golang.org/x/tools/go/ssa"
)

// Obligation is one solver-decided assertion.
type Obligation struct {
	Label    string
	Result   string // discharged | violated | inconclusive
	Path     []int
	Model    map[string]string
	Formula  string
	Implicit bool
	Handled  bool // the harness already turned this into a violation record
}

// PathEnd is raised (as a Go panic) to end the current path.
type PathEnd struct {
	Kind  string // "inconclusive", "infeasible", "done", "steps"
	Msg   string
	Stack []string
}

// UnwindFailure is a failed unwinding assertion (depth or step bound hit) with a model of the path.
type UnwindFailure struct {
	Msg   string
	Model map[string]string
	Stack []string
	Path  []int
}

// GoPanic is a panic of the interpreted program.
type GoPanic struct {
	Val       Value
	Msg       string // best-effort rendering
	Runtime   bool   // runtime error (nil deref, index, failed assertion)
	Stack     []string
	recovered bool
}

// Stats are accumulated over all paths of one Explore call.
type Stats struct {
	Paths         int
	Completed     int
	Infeasible    int
	Inconclusive  []string
	Unwinding     []UnwindFailure
	Steps         int64
	Obligations   []Obligation
	Funcs         map[string]int
	Stubs         map[string]int
	Unwound       map[string]int
	Queries       int
	SolverTime    time.Duration
	Branches      int
	MaxDepth      int
	UnknownBranch int
	QuickDecided  int
}

func (s *Stats) Merge(o *Stats) {
	s.Paths += o.Paths
	s.Completed += o.Completed
	s.Infeasible += o.Infeasible
	s.Inconclusive = append(s.Inconclusive, o.Inconclusive...)
	s.Unwinding = append(s.Unwinding, o.Unwinding...)
	s.Steps += o.Steps
	s.Obligations = append(s.Obligations, o.Obligations...)
	if s.Funcs == nil {
		s.Funcs = map[string]int{}
		s.Stubs = map[string]int{}
		s.Unwound = map[string]int{}
	}
	for k, v := range o.Funcs {
		s.Funcs[k] += v
	}
	for k, v := range o.Stubs {
		s.Stubs[k] += v
	}
	for k, v := range o.Unwound {
		if v > s.Unwound[k] {
			s.Unwound[k] = v
		}
	}
	s.Queries += o.Queries
	s.SolverTime += o.SolverTime
	s.Branches += o.Branches
	s.UnknownBranch += o.UnknownBranch
	s.QuickDecided += o.QuickDecided
	if o.MaxDepth > s.MaxDepth {
		s.MaxDepth = o.MaxDepth
	}
}

func (s *Stats) Count(result string) int {
	n := 0
	for _, o := range s.Obligations {
		if o.Result == result {
			n++
		}
	}
	return n
}

// World is what is shared by all paths of one exploration: program, solver, globals.
type World struct {
	Prog        *ssa.Program
	C           *smt.Ctx
	S           *smt.Solver
	Stubs       map[string]Stub
	ModulePkg   func(p *ssa.Package) bool // true if functions of p are interpreted from SSA
	Globals     map[*ssa.Global]Loc
	GlobalGen   map[string]func(ex *Exec) Value // values for globals outside the module
	MaxSteps    int
	MaxDepth    int
	MaxPaths    int
	Trace       bool
	StrBound    int
	CaseDefined bool
}

type Stub func(ex *Exec, call *CallInfo) Value

type CallInfo struct {
	Name   string
	Args   []Value
	Instr  ssa.CallInstruction // may be nil
	Common *ssa.CallCommon
	Sig    *types.Signature
}

// Exec is the state of one path.
type Exec struct {
	*World
	PC           []*smt.Term
	Domain       []*smt.Term // input-domain constraints (regexes) only needed to make models realistic
	eq           *eqState
	pcSet        map[*smt.Term]bool
	domSet       map[*smt.Term]bool
	NoQuick      bool
	prefix       []int
	decisions    []int
	pos          int
	pending      *[][]int
	Stats        *Stats
	depth        int
	steps        int
	obSeq        int
	ZeroHook     ZeroHook
	LocHook      func(t types.Type) (Loc, bool)
	Events       []Event
	User         map[string]any
	OpaqueNested bool
	LocalStubs   map[string]Stub // harness-specific contracts, consulted before World.Stubs
	panicking    *GoPanic
	callStack    []*ssa.Function
}

// Event is an observable action recorded by stubs or hooks.
type Event struct {
	Kind string
	Args []Value
	Note string
}

func (ex *Exec) Emit(kind string, note string, args ...Value) {
	ex.Events = append(ex.Events, Event{Kind: kind, Args: args, Note: note})
}

func (ex *Exec) Inconclusive(msg string) {
	panic(&PathEnd{Kind: "inconclusive", Msg: msg})
}

// Explore runs body once per feasible path.
func (w *World) Explore(body func(ex *Exec)) *Stats {
	return ExploreMulti(func() *World { return w }, func(*World) {}, 1, w.MaxPaths, body)
}

// ExploreMulti explores the path tree with up to n workers, each owning one World (solver).
// Paths are identified by decision prefixes and re-executed from the start, so workers share nothing
// but the queue of pending prefixes.
func ExploreMulti(get func() *World, put func(*World), n int, maxPaths int, body func(ex *Exec)) *Stats {
	total := &Stats{Funcs: map[string]int{}, Stubs: map[string]int{}, Unwound: map[string]int{}}
	var mu sync.Mutex
	cond := sync.NewCond(&mu)
	pending := [][]int{{}}
	active := 0
	started := 0
	budgetHit := false
	var wg sync.WaitGroup
	worker := func() {
		defer wg.Done()
		var w *World
		st := &Stats{Funcs: map[string]int{}, Stubs: map[string]int{}, Unwound: map[string]int{}}
		var q0 int
		var t0 time.Duration
		for {
			mu.Lock()
			for len(pending) == 0 && active > 0 {
				cond.Wait()
			}
			if len(pending) == 0 || budgetHit {
				mu.Unlock()
				break
			}
			if maxPaths > 0 && started >= maxPaths {
				budgetHit = true
				total.Inconclusive = append(total.Inconclusive, fmt.Sprintf("path budget %d exhausted with %d prefixes pending", maxPaths, len(pending)))
				cond.Broadcast()
				mu.Unlock()
				break
			}
			prefix := pending[len(pending)-1]
			pending = pending[:len(pending)-1]
			active++
			started++
			mu.Unlock()
			w = get()
			q0, t0 = w.S.Queries, w.S.Time
			var local [][]int
			runOnePath(w, st, prefix, &local, body)
			st.Queries += w.S.Queries - q0
			st.SolverTime += w.S.Time - t0
			put(w)
			w = nil
			mu.Lock()
			pending = append(pending, local...)
			active--
			cond.Broadcast()
			mu.Unlock()
		}
		mu.Lock()
		total.Merge(st)
		mu.Unlock()
	}
	if n < 1 {
		n = 1
	}
	for i := 0; i < n; i++ {
		wg.Add(1)
		go worker()
	}
	wg.Wait()
	return total
}

func runOnePath(w *World, st *Stats, prefix []int, pending *[][]int, body func(ex *Exec)) {
	ex := &Exec{World: w, prefix: prefix, decisions: append([]int(nil), prefix...), pending: pending, Stats: st, User: map[string]any{}}
	w.C.ResetFresh()
	st.Paths++
	if w.Trace {
		fmt.Fprintf(os.Stderr, "[path %d] prefix=%v queries=%d solver=%.1fs\n", st.Paths, prefix, w.S.Queries, w.S.Time.Seconds())
	}
	defer func() { st.Steps += int64(ex.steps) }()
	defer func() {
		if r := recover(); r != nil {
			switch e := r.(type) {
			case *PathEnd:
				switch e.Kind {
				case "inconclusive":
					st.Inconclusive = append(st.Inconclusive, e.Msg)
				case "steps":
					m := ex.ModelOf(nil)
					if m["$status"] == "unsat" {
						st.Infeasible++
						break
					}
					st.Unwinding = append(st.Unwinding, UnwindFailure{Msg: e.Msg, Model: m, Stack: e.Stack, Path: append([]int(nil), ex.decisions[:ex.pos]...)})
				case "infeasible":
					st.Infeasible++
				case "done":
					st.Completed++
				}
			case *GoPanic:
				// uncaught panic of the subject that the harness did not expect
				st.Obligations = append(st.Obligations, Obligation{Label: "no uncaught panic: " + e.Msg, Result: "violated", Path: append([]int(nil), ex.decisions[:ex.pos]...), Model: ex.ModelOf(nil), Implicit: true})
				st.Completed++
			default:
				panic(r)
			}
		}
	}()
	body(ex)
	st.Completed++
}

// StackAtPanic returns the call stack (innermost last) recorded when the panic was raised.
func (ex *Exec) StackAtPanic(p *GoPanic) []string { return p.Stack }

// Assume adds a constraint; ends the path if it becomes infeasible.
func (ex *Exec) Assume(c *smt.Term) {
	if c.IsConst {
		if !c.B {
			panic(&PathEnd{Kind: "infeasible"})
		}
		return
	}
	ex.PC = append(ex.PC, c)
	if ex.pos >= len(ex.prefix) { // only re-check past the replayed prefix
		r, _ := ex.S.Check(ex.PC, nil)
		if r == smt.Unsat {
			panic(&PathEnd{Kind: "infeasible"})
		}
	}
}

// AssumeDomain records an input-domain constraint that is too expensive for every feasibility
// query (regular-expression membership). Exploration over-approximates the domain without it;
// obligations that come back sat are re-decided with it, and models always satisfy it.
func (ex *Exec) AssumeDomain(c *smt.Term) {
	if ex.domSet == nil {
		ex.domSet = map[*smt.Term]bool{}
	}
	if ex.domSet[c] || (c.IsConst && c.B) {
		return
	}
	ex.domSet[c] = true
	ex.Domain = append(ex.Domain, c)
}

// AssumeNoCheck adds a constraint without a feasibility query (for input-domain constraints).
func (ex *Exec) AssumeNoCheck(c *smt.Term) {
	if c.IsConst && c.B {
		return
	}
	if ex.pcSet == nil {
		ex.pcSet = map[*smt.Term]bool{}
	}
	if ex.pcSet[c] {
		return
	}
	ex.pcSet[c] = true
	ex.PC = append(ex.PC, c)
	ex.noteFact(c)
}

// ---- a cheap decision procedure for (dis)equalities between atoms ----
// Branch conditions in moq's name bookkeeping are overwhelmingly `x == y` between names and
// constants. Those are decided on a union-find over the path condition's equalities and
// disequalities without calling the solver. The procedure only ever answers "infeasible" when
// that follows from the recorded facts (sound); when it cannot decide it answers "feasible",
// which may keep an infeasible path alive — harmless, because every obligation and every
// reported failure on a path is decided by the solver under the full path condition.

type eqState struct {
	parent map[*smt.Term]*smt.Term
	diseq  map[[2]*smt.Term]bool
	konst  map[*smt.Term]*smt.Term // class representative -> constant member
	dead   bool
}

func (ex *Exec) eqs() *eqState {
	if ex.eq == nil {
		ex.eq = &eqState{parent: map[*smt.Term]*smt.Term{}, diseq: map[[2]*smt.Term]bool{}, konst: map[*smt.Term]*smt.Term{}}
	}
	return ex.eq
}

func (e *eqState) find(t *smt.Term) *smt.Term {
	p, ok := e.parent[t]
	if !ok {
		e.parent[t] = t
		if t.IsConst {
			e.konst[t] = t
		}
		return t
	}
	if p == t {
		return t
	}
	r := e.find(p)
	e.parent[t] = r
	return r
}

func (e *eqState) neq(a, b *smt.Term) bool {
	ra, rb := e.find(a), e.find(b)
	if ra == rb {
		return false
	}
	if ka, kb := e.konst[ra], e.konst[rb]; ka != nil && kb != nil && ka != kb {
		return true
	}
	return e.diseq[[2]*smt.Term{ra, rb}] || e.diseq[[2]*smt.Term{rb, ra}]
}

func (e *eqState) union(a, b *smt.Term) {
	ra, rb := e.find(a), e.find(b)
	if ra == rb {
		return
	}
	if e.neq(ra, rb) {
		e.dead = true
	}
	e.parent[ra] = rb
	if k := e.konst[ra]; k != nil {
		e.konst[rb] = k
	}
	for k := range e.diseq {
		if k[0] == ra {
			e.diseq[[2]*smt.Term{rb, k[1]}] = true
		}
		if k[1] == ra {
			e.diseq[[2]*smt.Term{k[0], rb}] = true
		}
	}
}

func (ex *Exec) noteFact(c *smt.Term) {
	e := ex.eqs()
	switch c.Op {
	case "and":
		for _, a := range c.Args {
			ex.noteFact(a)
		}
	case "=":
		if c.Args[0].Sort == smt.String || c.Args[0].Sort == smt.Int {
			e.union(c.Args[0], c.Args[1])
		}
	case "not":
		if x := c.Args[0]; x.Op == "=" && (x.Args[0].Sort == smt.String || x.Args[0].Sort == smt.Int) {
			ra, rb := e.find(x.Args[0]), e.find(x.Args[1])
			if ra == rb {
				e.dead = true
			}
			e.diseq[[2]*smt.Term{ra, rb}] = true
		}
	}
}

// quickDecide answers feasibility of an atom `a = b` / `not (a = b)` from the recorded facts.
// ok=false means the guard is not of that shape.
func (ex *Exec) quickDecide(g *smt.Term) (feasible bool, ok bool) {
	if ex.NoQuick {
		return false, false
	}
	neg := false
	x := g
	if x.Op == "not" {
		neg, x = true, x.Args[0]
	}
	if x.Op != "=" || x.Args[0].Sort != smt.String {
		return false, false
	}
	for _, t := range x.Args {
		if t.Op != "var" && t.Op != "const" {
			return false, false // only plain names and constants; anything structured goes to the solver
		}
	}
	e := ex.eqs()
	a, b := x.Args[0], x.Args[1]
	same := e.find(a) == e.find(b)
	differ := e.neq(a, b)
	if neg {
		return !same, true
	}
	return !differ, true
}

// Branch decides a symbolic condition, forking if both sides are feasible.
func (ex *Exec) Branch(cond *smt.Term) bool {
	if cond.IsConst {
		return cond.B
	}
	return ex.Choose([]*smt.Term{cond, ex.C.Not(cond)}) == 0
}

// Choose picks one of several guarded alternatives (guards need not be exclusive).
// With nil guards it is a pure nondeterministic choice among n alternatives.
func (ex *Exec) Choose(guards []*smt.Term) int {
	if ex.pos < len(ex.decisions) {
		d := ex.decisions[ex.pos]
		ex.pos++
		if guards[d] != nil {
			ex.AssumeNoCheck(guards[d])
		}
		return d
	}
	ex.Stats.Branches++
	if ex.Trace && len(guards) > 0 && guards[0] != nil {
		g := guards[0].String()
		if len(g) > 160 {
			g = g[:160]
		}
		fmt.Fprintf(os.Stderr, "  guard@%d in %s: %s\n", ex.pos, ex.where(), g)
	}
	var feas []int
	binary := len(guards) == 2 && guards[0] != nil && guards[1] != nil && guards[1] == ex.C.Not(guards[0])
	for i, g := range guards {
		if binary && i == 1 && len(feas) == 0 {
			feas = append(feas, 1) // cond infeasible under a satisfiable pc ⇒ ¬cond feasible
			break
		}
		if g == nil {
			feas = append(feas, i)
			continue
		}
		if g.IsConst {
			if g.B {
				feas = append(feas, i)
			}
			continue
		}
		if ex.pcSet[g] { // the very same condition was already decided on this path
			feas = append(feas, i)
			continue
		}
		if ex.pcSet[ex.C.Not(g)] {
			continue
		}
		if f, ok := ex.quickDecide(g); ok {
			ex.Stats.QuickDecided++
			if f {
				feas = append(feas, i)
			}
			continue
		}
		r, _ := ex.S.Check(append(append([]*smt.Term(nil), ex.PC...), g), nil)
		if r == smt.Unknown {
			ex.Stats.UnknownBranch++
		}
		if r != smt.Unsat {
			feas = append(feas, i)
		}
	}
	if len(feas) == 0 {
		panic(&PathEnd{Kind: "infeasible"})
	}
	for _, alt := range feas[1:] {
		p := append(append([]int(nil), ex.decisions...), alt)
		*ex.pending = append(*ex.pending, p)
	}
	d := feas[0]
	ex.decisions = append(ex.decisions, d)
	ex.pos++
	if guards[d] != nil {
		ex.AssumeNoCheck(guards[d])
	}
	return d
}

// ChooseN is a nondeterministic choice among n alternatives.
func (ex *Exec) ChooseN(n int) int {
	if n == 1 {
		return 0
	}
	return ex.Choose(make([]*smt.Term, n))
}

// replaying reports whether the path is still inside the prefix shared with the path that discovered it.
func (ex *Exec) replaying() bool { return ex.pos < len(ex.prefix) }

// Oblige checks that cond follows from the path condition.
// It returns true if discharged. On violation or inconclusive it records it; the caller may continue.
func (ex *Exec) Oblige(cond *smt.Term, label string) bool {
	return ex.oblige(cond, label, false)
}

func (ex *Exec) oblige(cond *smt.Term, label string, implicit bool) bool {
	if ex.replaying() {
		return true
	}
	if cond.IsConst && cond.B {
		if !implicit {
			ex.Stats.Obligations = append(ex.Stats.Obligations, Obligation{Label: label, Result: "discharged", Implicit: implicit, Formula: "true (folded)"})
		}
		return true
	}
	neg := ex.C.Not(cond)
	fs := append(append([]*smt.Term(nil), ex.PC...), neg)
	r, _ := ex.S.Check(fs, nil)
	if r != smt.Unsat && len(ex.Domain) > 0 {
		// a counterexample only counts inside the declared input domain
		r, _ = ex.S.CheckHard(append(fs, ex.Domain...), nil)
	}
	if r == smt.Unknown {
		// undecided under load: one retry with a longer limit before the obligation counts as inconclusive
		full := fs
		if len(ex.Domain) > 0 {
			full = append(append([]*smt.Term(nil), fs...), ex.Domain...)
		}
		r, _ = ex.S.CheckLong(full, nil)
	}
	ob := Obligation{Label: label, Path: append([]int(nil), ex.decisions[:ex.pos]...), Implicit: implicit}
	if len(cond.String()) < 400 {
		ob.Formula = cond.String()
	}
	switch r {
	case smt.Unsat:
		ob.Result = "discharged"
	case smt.Sat:
		ob.Result = "violated"
		ob.Model = ex.ModelOf(neg)
	default:
		ob.Result = "inconclusive"
	}
	ex.Stats.Obligations = append(ex.Stats.Obligations, ob)
	return r == smt.Unsat
}

// Safety is an implicit obligation (no runtime panic); afterwards the condition is assumed.
func (ex *Exec) Safety(cond *smt.Term, label string) {
	if cond.IsConst {
		if cond.B {
			return
		}
		panic(&GoPanic{Msg: "runtime error: " + label, Runtime: true})
	}
	if !ex.oblige(cond, "no runtime panic: "+label+" in "+ex.where(), true) {
		// continue on the safe side only
	}
	ex.Assume(cond)
}

func (ex *Exec) where() string {
	if len(ex.callStack) == 0 {
		return "?"
	}
	return ex.callStack[len(ex.callStack)-1].String()
}

// Fail records a violated obligation decided without a solver (concrete paths).
func (ex *Exec) Fail(label string) {
	if ex.replaying() {
		return
	}
	m := ex.ModelOf(nil)
	if m["$status"] == "unsat" {
		return // the path itself is infeasible (kept alive by the cheap feasibility procedure)
	}
	ex.Stats.Obligations = append(ex.Stats.Obligations, Obligation{Label: label, Result: "violated", Path: append([]int(nil), ex.decisions[:ex.pos]...), Model: m})
}

// ObligeAll discharges several assertions with one query when they all hold (the common case)
// and falls back to one query per assertion otherwise.
func (ex *Exec) ObligeAll(conds []*smt.Term, labels []string) {
	if ex.replaying() {
		return
	}
	all := ex.C.And(conds...)
	fs := append(append([]*smt.Term(nil), ex.PC...), ex.C.Not(all))
	if r, _ := ex.S.Check(fs, nil); r == smt.Unsat {
		for _, l := range labels {
			ex.Stats.Obligations = append(ex.Stats.Obligations, Obligation{Label: l, Result: "discharged", Formula: "(discharged jointly with the other assertions of this path)"})
		}
		return
	}
	for i := range conds {
		ex.Oblige(conds[i], labels[i])
	}
}

// Pass records a discharged obligation that was decided by constant folding.
func (ex *Exec) Pass(label string) {
	if ex.replaying() {
		return
	}
	ex.Stats.Obligations = append(ex.Stats.Obligations, Obligation{Label: label, Result: "discharged", Formula: "(concrete)"})
}

// ModelOf asks the solver for a model of PC ∧ extra and returns the values of all free variables.
func (ex *Exec) ModelOf(extra *smt.Term) map[string]string {
	fs := append([]*smt.Term(nil), ex.PC...)
	fs = append(fs, ex.Domain...)
	if extra != nil {
		fs = append(fs, extra)
	}
	vars := ex.C.FreeVars(fs...)
	var want []*smt.Term
	for _, v := range vars {
		if v.Sort == smt.Int || v.Sort == smt.Bool || v.Sort == smt.String {
			want = append(want, v)
		}
	}
	if len(want) == 0 {
		return map[string]string{}
	}
	var r smt.Result
	var m map[*smt.Term]string
	if len(ex.Domain) > 0 {
		r, m = ex.S.CheckHard(fs, want)
	} else {
		r, m = ex.S.Check(fs, want)
	}
	out := map[string]string{}
	if r != smt.Sat {
		out["$status"] = r.String()
		return out
	}
	for k, v := range m {
		if k.Sort == smt.String {
			v = smt.Unquote(v)
		}
		out[k.Name] = v
	}
	return out
}

func SortedKeys(m map[string]int) []string {
	var ks []string
	for k := range m {
		ks = append(ks, k)
	}
	sort.Strings(ks)
	return ks
}

func shortFn(fn *ssa.Function) string {
	s := fn.String()
	s = strings.ReplaceAll(s, "github.com/matryer/moq/", "")
	return s
}
