package exec

import (
	"fmt"
	"go/types"
	"path"
	"strings"

	"moqsym/smt"
)

// StrBound is the default length bound for per-character string encodings.
const StrBound = 8

// Regex snippets (SMT-LIB).
const (
	ReLower  = `(re.range "a" "z")`
	ReUpper  = `(re.range "A" "Z")`
	ReDigit  = `(re.range "0" "9")`
	ReIdent  = `(re.++ (re.union ` + ReLower + ` ` + ReUpper + ` (str.to_re "_")) (re.* (re.union ` + ReLower + ` ` + ReUpper + ` ` + ReDigit + ` (str.to_re "_"))))`
	RePathCh = `(re.union ` + ReLower + ` ` + ReUpper + ` ` + ReDigit + ` (str.to_re "_") (str.to_re "-") (str.to_re ".") (str.to_re "~") (str.to_re "+") (str.to_re "@"))`
	ReSeg    = `(re.+ ` + RePathCh + `)`
	ReAscii  = `(re.* (re.range " " "~"))`
)

// Proves reports whether the path condition entails c (cached per path).
func (ex *Exec) Proves(c *smt.Term) bool {
	if c.IsConst {
		return c.B
	}
	// the path condition only grows, so a positive answer stays valid for the rest of the path
	key := "proves:" + c.String()
	if _, ok := ex.User[key]; ok {
		return true
	}
	r, _ := ex.S.Check(append(append([]*smt.Term(nil), ex.PC...), ex.C.Not(c)), nil)
	if r == smt.Unsat {
		ex.User[key] = true
	}
	return r == smt.Unsat
}

func (ex *Exec) defineCaseFuns() {
	if ex.User["casefuns"] != nil {
		return
	}
	ex.User["casefuns"] = true
	if ex.World.CaseDefined {
		return
	}
	ex.World.CaseDefined = true
	ex.C.Decls = append(ex.C.Decls,
		`(define-fun upc ((c String)) String (ite (and (<= 97 (str.to_code c)) (<= (str.to_code c) 122)) (str.from_code (- (str.to_code c) 32)) c))`,
		`(define-fun loc ((c String)) String (ite (and (<= 65 (str.to_code c)) (<= (str.to_code c) 90)) (str.from_code (+ (str.to_code c) 32)) c))`)
}

// CaseMap encodes strings.ToUpper / ToLower for ASCII strings of length ≤ bound.
func (ex *Exec) CaseMap(s *smt.Term, upper bool, bound int) *smt.Term {
	if s.IsConst {
		for i := 0; i < len(s.S); i++ {
			if s.S[i] >= 0x80 {
				ex.Inconclusive("non-ASCII constant in case mapping")
			}
		}
		if upper {
			return ex.C.StrC(strings.ToUpper(s.S))
		}
		return ex.C.StrC(strings.ToLower(s.S))
	}
	// distribute over concatenation so that constants fold
	if parts := ex.C.Flatten(s); len(parts) > 1 {
		var out []*smt.Term
		for _, p := range parts {
			out = append(out, ex.CaseMap(p, upper, bound))
		}
		return ex.C.Concat(out...)
	}
	if s.Op == "str.substr" && s.Args[2].IsConst && s.Args[2].I >= 0 && int(s.Args[2].I) < bound {
		bound = int(s.Args[2].I) // a substring of constant length needs only that many positions
	} else if !ex.Proves(ex.C.Le(ex.C.Len(s), ex.C.IntC(int64(bound)))) {
		ex.Inconclusive(fmt.Sprintf("case mapping of a string not bounded by %d: %s", bound, s))
	}
	ex.defineCaseFuns()
	f := "loc"
	if upper {
		f = "upc"
	}
	var parts []*smt.Term
	for i := 0; i < bound; i++ {
		ch := ex.C.Substr(s, ex.C.IntC(int64(i)), ex.C.IntC(1))
		parts = append(parts, ex.C.App(f, smt.String, ch))
	}
	return ex.C.Concat(parts...)
}

// SplitConst implements strings.Split(s, sep) for a constant separator on a rope-shaped term.
func (ex *Exec) SplitConst(s *smt.Term, sep string) []*smt.Term {
	if s.IsConst {
		var out []*smt.Term
		for _, p := range strings.Split(s.S, sep) {
			out = append(out, ex.C.StrC(p))
		}
		return out
	}
	var pieces []*smt.Term
	var cur []*smt.Term
	parts := ex.C.Flatten(s)
	for i := 0; i < len(parts); i++ {
		p := parts[i]
		if p.IsConst {
			sub := strings.Split(p.S, sep)
			for k, x := range sub {
				if k > 0 {
					pieces = append(pieces, ex.C.Concat(cur...))
					cur = nil
				}
				cur = append(cur, ex.C.StrC(x))
			}
			continue
		}
		// a separator may start inside this atom and finish in the constant that follows it
		straddled := false
		if i+1 < len(parts) && parts[i+1].IsConst && len(sep) > 1 {
			next := parts[i+1].S
			for k := len(sep) - 1; k >= 1 && !straddled; k-- {
				a, b := sep[:k], sep[k:]
				if !strings.HasPrefix(next, b) {
					continue
				}
				if ex.Branch(ex.C.SuffixOf(ex.C.StrC(a), p)) {
					n := ex.C.Len(p)
					cur = append(cur, ex.C.Substr(p, ex.C.IntC(0), ex.C.Sub(n, ex.C.IntC(int64(k)))))
					pieces = append(pieces, ex.C.Concat(cur...))
					cur = nil
					parts[i+1] = ex.C.StrC(next[len(b):])
					straddled = true
				}
			}
		}
		if !straddled {
			cur = append(cur, p)
		}
	}
	pieces = append(pieces, ex.C.Concat(cur...))
	// soundness side conditions, decided by the solver
	sepT := ex.C.StrC(sep)
	for k, p := range pieces {
		if p.IsConst {
			continue
		}
		if !ex.Proves(ex.C.Not(ex.C.Contains(p, sepT))) {
			ex.Inconclusive(fmt.Sprintf("cannot split %s structurally at %q", s, sep))
		}
		_ = k
	}
	return pieces
}

func (ex *Exec) strSlice(ts []*smt.Term) Slice {
	arr := &ArrLoc{E: make([]Loc, len(ts))}
	for i, t := range ts {
		arr.E[i] = &Cell{V: t}
	}
	return Slice{Arr: arr, Len: len(ts), Cap: len(ts)}
}

// StrSliceOf builds a []string value.
func (ex *Exec) StrSliceOf(ts ...*smt.Term) Slice { return ex.strSlice(ts) }

func (ex *Exec) sliceElems(v Value) []Value {
	switch s := v.(type) {
	case Slice:
		out := make([]Value, s.Len)
		for i := 0; i < s.Len; i++ {
			out[i] = s.Arr.E[s.Off+i].Load(ex)
		}
		return out
	}
	ex.Inconclusive(fmt.Sprintf("slice elements of %T", v))
	return nil
}

// SliceElems returns the elements of a concrete-length slice.
func (ex *Exec) SliceElems(v Value) []Value { return ex.sliceElems(v) }

func (ex *Exec) trimLeft(s *smt.Term, cutset string) *smt.Term {
	parts := ex.C.Flatten(s)
	for len(parts) > 0 {
		p := parts[0]
		if p.IsConst {
			r := strings.TrimLeft(p.S, cutset)
			if r != "" {
				parts[0] = ex.C.StrC(r)
				break
			}
			parts = parts[1:]
			continue
		}
		var bad []*smt.Term
		bad = append(bad, ex.C.Eq(p, ex.C.StrC("")))
		for i := 0; i < len(cutset); i++ {
			bad = append(bad, ex.C.PrefixOf(ex.C.StrC(cutset[i:i+1]), p))
		}
		if !ex.Proves(ex.C.Not(ex.C.Or(bad...))) {
			ex.Inconclusive(fmt.Sprintf("TrimLeft(%s, %q): leading atom not provably outside the cutset", s, cutset))
		}
		break
	}
	return ex.C.Concat(parts...)
}

func (ex *Exec) trimRight(s *smt.Term, cutset string) *smt.Term {
	parts := append([]*smt.Term(nil), ex.C.Flatten(s)...)
	for len(parts) > 0 {
		p := parts[len(parts)-1]
		if p.IsConst {
			r := strings.TrimRight(p.S, cutset)
			if r != "" {
				parts[len(parts)-1] = ex.C.StrC(r)
				break
			}
			parts = parts[:len(parts)-1]
			continue
		}
		var bad []*smt.Term
		bad = append(bad, ex.C.Eq(p, ex.C.StrC("")))
		for i := 0; i < len(cutset); i++ {
			bad = append(bad, ex.C.SuffixOf(ex.C.StrC(cutset[i:i+1]), p))
		}
		if !ex.Proves(ex.C.Not(ex.C.Or(bad...))) {
			ex.Inconclusive(fmt.Sprintf("TrimRight(%s, %q): trailing atom not provably outside the cutset", s, cutset))
		}
		break
	}
	return ex.C.Concat(parts...)
}

// pathJoin models path.Join for rope-shaped, already clean elements.
func (ex *Exec) pathJoin(elems []*smt.Term) *smt.Term {
	allConst := true
	for _, e := range elems {
		if !e.IsConst {
			allConst = false
		}
	}
	if allConst {
		ss := make([]string, len(elems))
		for i, e := range elems {
			ss[i] = e.S
		}
		return ex.C.StrC(path.Join(ss...))
	}
	var parts []*smt.Term
	for _, e := range elems {
		if e.IsConst && e.S == "" {
			continue
		}
		if !e.IsConst && !ex.Proves(ex.C.Not(ex.C.Eq(e, ex.C.StrC("")))) {
			ex.Inconclusive("path.Join element may be empty")
		}
		if len(parts) > 0 {
			parts = append(parts, ex.C.StrC("/"))
		}
		parts = append(parts, e)
	}
	joined := ex.C.Concat(parts...)
	// Clean is the identity when every segment is a plain name.
	for _, seg := range ex.SplitConst(joined, "/") {
		if seg.IsConst {
			if seg.S == "" || seg.S == "." || seg.S == ".." {
				ex.Inconclusive("path.Join/Clean on a path with empty or dot segments: " + joined.String())
			}
			continue
		}
		ok := ex.C.And(ex.C.Not(ex.C.Eq(seg, ex.C.StrC(""))), ex.C.Not(ex.C.Eq(seg, ex.C.StrC("."))), ex.C.Not(ex.C.Eq(seg, ex.C.StrC(".."))))
		if !ex.Proves(ok) {
			ex.Inconclusive("path.Clean: segment may be empty or a dot segment: " + seg.String())
		}
	}
	return joined
}

// FormatStr renders v for %s / %v / %d.
func (ex *Exec) FormatStr(v Value) *smt.Term {
	switch x := v.(type) {
	case Iface:
		if x.T == nil {
			return ex.C.StrC("<nil>")
		}
		if inv, ok := x.V.(Invoker); ok {
			if _, isErr := x.V.(*ErrObj); isErr {
				return inv.Invoke(ex, "Error", nil).(*smt.Term)
			}
			if st, ok := x.V.(Stringer); ok {
				return st.StringTerm(ex)
			}
		}
		return ex.FormatStr(x.V)
	case *smt.Term:
		switch x.Sort {
		case smt.String:
			return x
		case smt.Int:
			if x.IsConst && x.I < 0 {
				return ex.C.StrC(fmt.Sprint(x.I))
			}
			return ex.C.FromInt(x)
		case smt.Bool:
			return ex.C.Ite(x, ex.C.StrC("true"), ex.C.StrC("false"))
		}
	case Stringer:
		return x.StringTerm(ex)
	}
	return ex.C.Fresh("fmt_opaque", smt.String)
}

// Stringer is implemented by engine objects that can render themselves.
type Stringer interface{ StringTerm(ex *Exec) *smt.Term }

func (ex *Exec) sprintf(format string, args []Value) *smt.Term {
	var parts []*smt.Term
	ai := 0
	for i := 0; i < len(format); i++ {
		if format[i] != '%' {
			j := strings.IndexByte(format[i:], '%')
			if j < 0 {
				j = len(format) - i
			}
			parts = append(parts, ex.C.StrC(format[i:i+j]))
			i += j - 1
			continue
		}
		i++
		if i >= len(format) {
			break
		}
		switch format[i] {
		case '%':
			parts = append(parts, ex.C.StrC("%"))
		case 's', 'v', 'd', 'q':
			if ai >= len(args) {
				parts = append(parts, ex.C.StrC("%!"+string(format[i])+"(MISSING)"))
				continue
			}
			t := ex.FormatStr(args[ai])
			ai++
			if format[i] == 'q' {
				t = ex.C.Concat(ex.C.StrC(`"`), t, ex.C.StrC(`"`))
			}
			parts = append(parts, t)
		default:
			ex.Inconclusive("fmt verb %" + string(format[i]))
		}
	}
	return ex.C.Concat(parts...)
}

func constStrArg(ex *Exec, v Value, what string) string {
	s, ok := ConstStr(v)
	if !ok {
		ex.Inconclusive(what + ": argument is not a constant string")
	}
	return s
}

// Replacer is the object behind *strings.Replacer.
type Replacer struct{ Pairs []string }

// BaseStubs are the contracts of the standard-library functions moq calls.
func BaseStubs() map[string]Stub {
	st := map[string]Stub{}
	st["strings.ToUpper"] = func(ex *Exec, c *CallInfo) Value { return ex.CaseMap(c.Args[0].(*smt.Term), true, ex.strBound()) }
	st["strings.ToLower"] = func(ex *Exec, c *CallInfo) Value {
		a := c.Args[0].(*smt.Term)
		if a.Op == "uf:replace" { // ToLower ∘ Replace is summarised as one function
			r, _ := ex.User["replacer"].(*Replacer)
			return ex.Sanitize(r, a.Args[0], true)
		}
		return ex.CaseMap(a, false, ex.strBound())
	}
	st["strings.Split"] = func(ex *Exec, c *CallInfo) Value {
		return ex.strSlice(ex.SplitConst(c.Args[0].(*smt.Term), constStrArg(ex, c.Args[1], "strings.Split")))
	}
	st["strings.SplitN"] = func(ex *Exec, c *CallInfo) Value {
		s := c.Args[0].(*smt.Term)
		sep := constStrArg(ex, c.Args[1], "strings.SplitN")
		n := c.Args[2].(*smt.Term)
		if !n.IsConst || n.I != 2 || sep == "" {
			ex.Inconclusive("strings.SplitN with n != 2")
		}
		if s.IsConst {
			var out []*smt.Term
			for _, p := range strings.SplitN(s.S, sep, 2) {
				out = append(out, ex.C.StrC(p))
			}
			return ex.strSlice(out)
		}
		sepT := ex.C.StrC(sep)
		if ex.Branch(ex.C.Contains(s, sepT)) {
			idx := ex.C.IndexOf(s, sepT, ex.C.IntC(0))
			a := ex.C.Substr(s, ex.C.IntC(0), idx)
			off := ex.C.Add(idx, ex.C.IntC(int64(len(sep))))
			b := ex.C.Substr(s, off, ex.C.Sub(ex.C.Len(s), off))
			return ex.strSlice([]*smt.Term{a, b})
		}
		return ex.strSlice([]*smt.Term{s})
	}
	st["strings.Join"] = func(ex *Exec, c *CallInfo) Value {
		sep := c.Args[1].(*smt.Term)
		var parts []*smt.Term
		for i, e := range ex.sliceElems(c.Args[0]) {
			if i > 0 {
				parts = append(parts, sep)
			}
			parts = append(parts, e.(*smt.Term))
		}
		return ex.C.Concat(parts...)
	}
	st["strings.TrimLeft"] = func(ex *Exec, c *CallInfo) Value {
		return ex.trimLeft(c.Args[0].(*smt.Term), constStrArg(ex, c.Args[1], "strings.TrimLeft"))
	}
	st["strings.Trim"] = func(ex *Exec, c *CallInfo) Value {
		cut := constStrArg(ex, c.Args[1], "strings.Trim")
		return ex.trimRight(ex.trimLeft(c.Args[0].(*smt.Term), cut), cut)
	}
	st["strings.NewReplacer"] = func(ex *Exec, c *CallInfo) Value {
		r := &Replacer{}
		for _, e := range ex.sliceElems(c.Args[0]) {
			r.Pairs = append(r.Pairs, constStrArg(ex, e, "strings.NewReplacer"))
		}
		return &Cell{V: r}
	}
	st["(*strings.Replacer).Replace"] = func(ex *Exec, c *CallInfo) Value {
		r := ex.deref(c.Args[0], "Replacer").Load(ex).(*Replacer)
		ex.User["replacer"] = r
		return ex.Sanitize(r, c.Args[1].(*smt.Term), false)
	}
	st["path.Join"] = func(ex *Exec, c *CallInfo) Value {
		var el []*smt.Term
		for _, e := range ex.sliceElems(c.Args[0]) {
			el = append(el, e.(*smt.Term))
		}
		return ex.pathJoin(el)
	}
	st["strconv.Itoa"] = func(ex *Exec, c *CallInfo) Value {
		n := c.Args[0].(*smt.Term)
		if n.IsConst {
			return ex.C.StrC(fmt.Sprint(n.I))
		}
		ex.Safety(ex.C.Ge(n, ex.C.IntC(0)), "Itoa model needs n >= 0")
		return ex.C.FromInt(n)
	}
	st["fmt.Sprintf"] = func(ex *Exec, c *CallInfo) Value {
		return ex.sprintf(constStrArg(ex, c.Args[0], "fmt.Sprintf"), ex.sliceElems(c.Args[1]))
	}
	st["fmt.Errorf"] = func(ex *Exec, c *CallInfo) Value {
		return ex.NewError(ex.sprintf(constStrArg(ex, c.Args[0], "fmt.Errorf"), ex.sliceElems(c.Args[1])), "errorf")
	}
	st["errors.New"] = func(ex *Exec, c *CallInfo) Value { return ex.NewError(c.Args[0].(*smt.Term), "new") }
	st["sort.SearchStrings"] = func(ex *Exec, c *CallInfo) Value {
		// binary search exactly as sort.Search does: smallest i with a[i] >= x
		el := ex.sliceElems(c.Args[0])
		x := c.Args[1].(*smt.Term)
		lo, hi := 0, len(el)
		for lo < hi {
			mid := int(uint(lo+hi) >> 1)
			if !ex.Branch(ex.C.Not(ex.C.StrLt(el[mid].(*smt.Term), x))) { // !(a[mid] >= x)
				lo = mid + 1
			} else {
				hi = mid
			}
		}
		return ex.C.IntC(int64(lo))
	}
	st["sort.Strings"] = func(ex *Exec, c *CallInfo) Value {
		s := c.Args[0].(Slice)
		for i := 1; i < s.Len; i++ {
			for j := i; j > 0; j-- {
				a, b := s.Arr.E[s.Off+j], s.Arr.E[s.Off+j-1]
				av, bv := a.Load(ex).(*smt.Term), b.Load(ex).(*smt.Term)
				if !ex.Branch(ex.C.StrLt(av, bv)) {
					break
				}
				a.Store(ex, bv)
				b.Store(ex, av)
			}
		}
		return nil
	}
	st["strings.Contains"] = func(ex *Exec, c *CallInfo) Value { return ex.C.Contains(c.Args[0].(*smt.Term), c.Args[1].(*smt.Term)) }
	st["strings.HasPrefix"] = func(ex *Exec, c *CallInfo) Value { return ex.C.PrefixOf(c.Args[1].(*smt.Term), c.Args[0].(*smt.Term)) }
	st["strings.HasSuffix"] = func(ex *Exec, c *CallInfo) Value { return ex.C.SuffixOf(c.Args[1].(*smt.Term), c.Args[0].(*smt.Term)) }
	st["strings.Index"] = func(ex *Exec, c *CallInfo) Value {
		return ex.C.IndexOf(c.Args[0].(*smt.Term), c.Args[1].(*smt.Term), ex.C.IntC(0))
	}
	st["strings.TrimPrefix"] = func(ex *Exec, c *CallInfo) Value {
		s, p := c.Args[0].(*smt.Term), c.Args[1].(*smt.Term)
		if ex.Branch(ex.C.PrefixOf(p, s)) {
			return ex.C.Substr(s, ex.C.Len(p), ex.C.Sub(ex.C.Len(s), ex.C.Len(p)))
		}
		return s
	}
	st["strings.TrimSuffix"] = func(ex *Exec, c *CallInfo) Value {
		s, p := c.Args[0].(*smt.Term), c.Args[1].(*smt.Term)
		if ex.Branch(ex.C.SuffixOf(p, s)) {
			return ex.C.Substr(s, ex.C.IntC(0), ex.C.Sub(ex.C.Len(s), ex.C.Len(p)))
		}
		return s
	}
	st["strings.EqualFold"] = func(ex *Exec, c *CallInfo) Value {
		return ex.C.Eq(ex.CaseMap(c.Args[0].(*smt.Term), false, ex.strBound()), ex.CaseMap(c.Args[1].(*smt.Term), false, ex.strBound()))
	}
	st["sort.Slice"] = func(ex *Exec, c *CallInfo) Value {
		iv := c.Args[0].(Iface)
		s := iv.V.(Slice)
		less := c.Args[1]
		// insertion sort driven by the real less closure
		for i := 1; i < s.Len; i++ {
			for j := i; j > 0; j-- {
				r := ex.CallValue(less, []Value{ex.C.IntC(int64(j)), ex.C.IntC(int64(j - 1))}).(*smt.Term)
				if !ex.Branch(r) {
					break
				}
				a, b := s.Arr.E[s.Off+j], s.Arr.E[s.Off+j-1]
				av, bv := a.Load(ex), b.Load(ex)
				a.Store(ex, bv)
				b.Store(ex, av)
			}
		}
		return nil
	}
	return st
}

func (ex *Exec) strBound() int {
	if ex.World.StrBound > 0 {
		return ex.World.StrBound
	}
	return StrBound
}

// Sanitize models strings.ToLower(replacer.Replace(seg)) for one path segment.
// Constants are computed with the real strings.Replacer built from the pairs read from the
// repository's init code. For a symbolic segment: plain alphanumeric segments map to their
// lower-case form (exact); any other segment maps to an uninterpreted value in [a-z0-9]* that is
// no longer than the segment (functional consistency comes from the UF; injectivity is NOT assumed).
func (ex *Exec) Sanitize(r *Replacer, seg *smt.Term, lower bool) *smt.Term {
	if seg.IsConst {
		out := strings.NewReplacer(r.Pairs...).Replace(seg.S)
		if lower {
			out = strings.ToLower(out)
		}
		return ex.C.StrC(out)
	}
	if parts := ex.C.Flatten(seg); len(parts) > 1 {
		// the replacer works piecewise unless one of its multi-character patterns (go-, -go) can
		// straddle a boundary: that needs a constant piece starting or ending with one of - g o
		var out []*smt.Term
		for i, p := range parts {
			if p.IsConst && p.S != "" {
				if (i > 0 && strings.ContainsRune("-go", rune(p.S[0]))) || (i < len(parts)-1 && strings.ContainsRune("-go", rune(p.S[len(p.S)-1]))) {
					ex.Inconclusive("Replacer.Replace on a concatenation whose constant piece may complete a multi-character pattern")
				}
			}
			out = append(out, ex.Sanitize(r, p, lower))
		}
		return ex.C.Concat(out...)
	}
	for _, p := range r.Pairs {
		_ = p
	}
	for i := 1; i < len(r.Pairs); i += 2 {
		if r.Pairs[i] != "" {
			ex.Inconclusive("Replacer summary assumes every replacement is the empty string")
		}
	}
	special := ""
	for i := 0; i < len(r.Pairs); i += 2 {
		for _, ch := range r.Pairs[i] {
			if !(ch >= 'a' && ch <= 'z' || ch >= 'A' && ch <= 'Z' || ch >= '0' && ch <= '9') && !strings.ContainsRune(special, ch) {
				special += string(ch)
			}
		}
	}
	plain := ex.C.InRe(seg, `(re.* (re.union `+ReLower+` `+ReUpper+` `+ReDigit+`))`)
	// R(seg): the Replace result itself. Only the length bound is needed to explore paths; the
	// alphabet and the exactness on plain segments are part of the input domain (applied when a
	// counterexample or a model is asked for), which keeps feasibility queries cheap.
	rr := ex.C.UF("replace", []string{smt.String}, smt.String, seg)
	ex.AssumeNoCheck(ex.C.Le(ex.C.Len(rr), ex.C.Len(seg)))
	ex.AssumeDomain(ex.C.InRe(rr, `(re.* (re.union `+ReLower+` `+ReUpper+` `+ReDigit+`))`))
	ex.AssumeDomain(ex.C.Implies(plain, ex.C.Eq(rr, seg)))
	if !lower {
		return rr
	}
	u := ex.C.UF("sanitize", []string{smt.String}, smt.String, seg)
	ex.AssumeNoCheck(ex.C.Le(ex.C.Len(u), ex.C.Len(seg)))
	ex.AssumeDomain(ex.C.InRe(u, `(re.* (re.union `+ReLower+` `+ReDigit+`))`))
	ex.AssumeDomain(ex.C.Eq(ex.C.Len(u), ex.C.Len(rr)))
	// a segment with no special character at all is only lower-cased
	ex.AssumeDomain(ex.C.Implies(plain, ex.C.Eq(u, ex.CaseMap(seg, false, ex.strBound()))))
	ex.User["replacerSpecial"] = special
	return u
}

// IsStringType reports whether t's underlying type is string.
func IsStringType(t types.Type) bool {
	b, ok := t.Underlying().(*types.Basic)
	return ok && b.Info()&types.IsString != 0
}
