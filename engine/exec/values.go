// Package exec is a path-forking symbolic interpreter over go/ssa.
//
// Scalars (int, bool, string and opaque values) are SMT terms; aggregates,
// pointers, slices and maps are concrete containers whose leaves are terms.
// Paths are explored by deterministic re-execution under a decision vector, so
// the heap never has to be cloned.
package exec

import (
	"fmt"
	"go/types"

	"moqsym/smt"

	"golang.org/x/tools/go/ssa"
)

type Value any

// Struct is an immutable struct or array value.
type Struct struct{ F []Value }

// Tuple is a multi-value.
type Tuple []Value

// Iface is an interface value; the nil interface has T == nil.
type Iface struct {
	T types.Type
	V Value
}

// NilV is the nil pointer / func / chan / map.
type NilV struct{}

// Closure is a function value.
type Closure struct {
	Fn   *ssa.Function
	Free []Value
}

// Native is a function value implemented by the engine.
type Native struct {
	Name string
	F    func(ex *Exec, args []Value) Value
}

// Slice is a slice with concrete bounds over an array object.
type Slice struct {
	Arr           *ArrLoc
	Off, Len, Cap int
}

// MapObj is a small association list.
type MapObj struct {
	Keys, Vals []Value
	VT         types.Type
}

// Opaque is a value of a type the engine does not interpret, identified by a term of sort Val.
type Opaque struct{ T *smt.Term }

// Loc is an addressable location (what a Go pointer points to).
type Loc interface {
	Load(ex *Exec) Value
	Store(ex *Exec, v Value)
}

type Cell struct {
	V    Value
	Note string
}

func (c *Cell) Load(*Exec) Value       { return c.V }
func (c *Cell) Store(_ *Exec, v Value) { c.V = v }

type StructLoc struct{ F []Loc }

func (s *StructLoc) Load(ex *Exec) Value {
	out := &Struct{F: make([]Value, len(s.F))}
	for i, f := range s.F {
		out.F[i] = f.Load(ex)
	}
	return out
}
func (s *StructLoc) Store(ex *Exec, v Value) {
	sv, ok := v.(*Struct)
	if !ok || len(sv.F) != len(s.F) {
		ex.Inconclusive(fmt.Sprintf("store of %T into struct location", v))
	}
	for i, f := range s.F {
		f.Store(ex, sv.F[i])
	}
}

type ArrLoc struct{ E []Loc }

func (a *ArrLoc) Load(ex *Exec) Value {
	out := &Struct{F: make([]Value, len(a.E))}
	for i, f := range a.E {
		out.F[i] = f.Load(ex)
	}
	return out
}
func (a *ArrLoc) Store(ex *Exec, v Value) {
	sv, ok := v.(*Struct)
	if !ok || len(sv.F) != len(a.E) {
		ex.Inconclusive(fmt.Sprintf("store of %T into array location", v))
	}
	for i, f := range a.E {
		f.Store(ex, sv.F[i])
	}
}

// ZeroHook lets a harness decide the zero value of types the engine does not model (type parameters).
type ZeroHook func(t types.Type) (Value, bool)

func (ex *Exec) Zero(t types.Type) Value {
	if ex.ZeroHook != nil {
		if v, ok := ex.ZeroHook(t); ok {
			return v
		}
	}
	switch u := t.(type) {
	case *types.Named:
		return ex.Zero(u.Underlying())
	case *types.Alias:
		return ex.Zero(types.Unalias(u))
	case *types.Basic:
		switch {
		case u.Info()&types.IsString != 0:
			return ex.C.StrC("")
		case u.Info()&types.IsBoolean != 0:
			return ex.C.False()
		case u.Info()&types.IsNumeric != 0:
			return ex.C.IntC(0)
		case u.Kind() == types.UnsafePointer, u.Kind() == types.UntypedNil:
			return NilV{}
		}
	case *types.Pointer, *types.Signature, *types.Chan, *types.Map:
		return NilV{}
	case *types.Slice:
		return Slice{}
	case *types.Interface:
		return Iface{}
	case *types.Struct:
		s := &Struct{F: make([]Value, u.NumFields())}
		for i := range s.F {
			s.F[i] = ex.Zero(u.Field(i).Type())
		}
		return s
	case *types.Array:
		s := &Struct{F: make([]Value, int(u.Len()))}
		for i := range s.F {
			s.F[i] = ex.Zero(u.Elem())
		}
		return s
	case *types.Tuple:
		tp := make(Tuple, u.Len())
		for i := range tp {
			tp[i] = ex.Zero(u.At(i).Type())
		}
		return tp
	case *types.TypeParam:
		return Opaque{ex.C.Var("zero$"+u.Obj().Name(), smt.Val)}
	}
	ex.Inconclusive("zero value of " + t.String())
	return nil
}

// NewLoc allocates a zero-initialised location tree for type t.
func (ex *Exec) NewLoc(t types.Type) Loc {
	if ex.LocHook != nil {
		if l, ok := ex.LocHook(t); ok {
			return l
		}
	}
	switch u := t.Underlying().(type) {
	case *types.Struct:
		if _, isTP := t.(*types.TypeParam); isTP {
			break
		}
		s := &StructLoc{F: make([]Loc, u.NumFields())}
		for i := range s.F {
			ft := u.Field(i).Type()
			if ex.OpaqueNested {
				// aggregates nested inside a struct are kept as single opaque cells
				switch ft.Underlying().(type) {
				case *types.Struct, *types.Array:
					if _, isTP := ft.(*types.TypeParam); !isTP {
						s.F[i] = &Cell{V: Opaque{ex.C.Var("zero$"+ft.String(), smt.Val)}}
						continue
					}
				}
			}
			s.F[i] = ex.NewLoc(ft)
		}
		return s
	case *types.Array:
		a := &ArrLoc{E: make([]Loc, int(u.Len()))}
		for i := range a.E {
			a.E[i] = ex.NewLoc(u.Elem())
		}
		return a
	}
	return &Cell{V: ex.Zero(t)}
}

func IsNil(v Value) (isNil bool, known bool) {
	switch x := v.(type) {
	case NilV:
		return true, true
	case Iface:
		return x.T == nil, true
	case Slice:
		return x.Arr == nil, true
	case *MapObj:
		return x == nil, true
	case nil:
		return true, true
	case *smt.Term, *Struct, Tuple:
		return false, false
	}
	return false, true
}
