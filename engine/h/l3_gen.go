package h

import (
	"fmt"
	"go/types"
	"os"
	"path/filepath"
	"sort"
	"strings"
	"sync"
	"time"

	"golang.org/x/tools/go/ssa"
)

// ---- L3: the generated mocks. moq (built from the current tree) is run on a corpus of interface
// shapes for every flag combination; the emitted Go is loaded into SSA and executed symbolically. ----

const corpusDep = `package dep

type Thing struct{ N int }

type Iface interface{ Do() }
`

const corpusSrc = `package corpus

import (
	"context"
	"fmt"
	"io"

	"corpus.example/dep"
)

type Local struct{ A int }

type Basic interface {
	NoArgs()
	One(a int) string
	Two(s string, p *Local) (int, error)
	Named(ctx context.Context, id string) (res Local, err error)
	Blank(_ int, _ string)
	Unnamed(int, string, bool, float64) bool
	Three() (a int, b string, c error)
}

type Variadic interface {
	Strs(prefix string, rest ...string) int
	Ifaces(args ...interface{})
	Ptrs(ps ...*Local) error
}

type Kinds interface {
	Fn(f func(int) string) func() error
	Ch(c chan int, r <-chan string, s chan<- bool)
	Sl(b []byte, m map[string]dep.Thing) []dep.Thing
	St(s struct{ X int }, a [3]int) struct{ Y string }
	Imp(r io.Reader, t dep.Thing, d *dep.Thing) (io.Writer, dep.Iface)
}

type Gen[T any] interface {
	Get(k string) T
	Put(k string, v T)
}

type Gen2[K ~string, V fmt.Stringer] interface {
	Load(k K) (V, bool)
	Store(k K, v V)
}

type Num interface{ ~int | ~int64 }

type GenU[N Num] interface{ Add(a, b N) N }

type Embeds interface {
	Basic
	io.Closer
	Extra(x dep.Thing)
}

type AliasI = Variadic

type One interface{ Only(x int) }

// methods whose names differ only in the case of the first letter (lockWrite / lockwrite)
type CasePair interface {
	Write(seq int) error
	write(seq int)
}

// a method returning the mocked interface itself
type Chain interface {
	With(name string) Chain
	Done()
}

type Empty interface{}
`

var corpusIfaces = []string{"Basic", "Variadic", "Kinds", "Gen", "Gen2", "GenU", "Embeds", "AliasI", "One", "Empty", "CasePair", "Chain"}

// ifacesFor: an interface with an unexported method cannot be implemented from another package.
func ifacesFor(cfg L3Config) []string {
	var out []string
	for _, in := range corpusIfaces {
		if cfg.OtherPkg && in == "CasePair" {
			continue
		}
		out = append(out, in)
	}
	return out
}

// L3Config is one flag combination.
type L3Config struct {
	Stub, Resets, Skip bool
	OtherPkg           bool
}

func (c L3Config) Tag() string {
	b := func(v bool, s string) string {
		if v {
			return s
		}
		return ""
	}
	t := "c" + b(c.Stub, "S") + b(c.Resets, "R") + b(c.Skip, "K") + b(c.OtherPkg, "O")
	return t
}

// L3Mock is one generated mock type.
type L3Mock struct {
	Cfg      L3Config
	Iface    string
	Name     string // mock type name
	Pkg      *ssa.Package
	Type     *types.Named
	Methods  []string // interface method names in generation order (from the func fields)
	IfaceObj *types.Named
}

type L3State struct {
	Guard *TemplateGuard
	Dir   string
	Repo  *Repo
	Mocks []*L3Mock
	Gen   time.Duration
	Errs  []string
	Cmds  []string
}

var l3Once sync.Once
var l3State *L3State
var l3Err error

func l3Configs(tier string) []L3Config {
	var out []L3Config
	for i := 0; i < 8; i++ {
		out = append(out, L3Config{Stub: i&1 != 0, Resets: i&2 != 0, Skip: i&4 != 0})
	}
	if tier == "thorough" {
		for i := 0; i < 8; i++ {
			out = append(out, L3Config{Stub: i&1 != 0, Resets: i&2 != 0, Skip: i&4 != 0, OtherPkg: true})
		}
	} else {
		out = append(out, L3Config{Stub: true, Resets: true, OtherPkg: true})
	}
	return out
}

// L3 generates (once per run) the corpus mocks with the moq built from the current tree and loads them.
func (env *Env) L3Get() (*L3State, error) {
	l3Once.Do(func() {
		t0 := time.Now()
		bin, err := env.MoqBin()
		if err != nil {
			l3Err = err
			return
		}
		root, err := os.MkdirTemp(env.scratch(), "l3-")
		if err != nil {
			l3Err = err
			return
		}
		st := &L3State{Dir: root}
		st.Guard = templateGuard(env.RepoDir)
		corpusText := corpusSrc
		if dyn := st.Guard.dynCorpus(); dyn != "" {
			corpusText += dyn
			corpusIfaces = append(corpusIfaces, "Dyn")
		}
		files := map[string]string{
			"go.mod":              "module corpus.example\n\ngo 1.21\n",
			"dep/dep.go":          corpusDep,
			"corpus/corpus.go":    corpusText,
			"corpus/other/doc.go": "package other\n",
		}
		if err := writeTree(root, files); err != nil {
			l3Err = err
			return
		}
		type pend struct {
			cfg  L3Config
			file string
		}
		for _, cfg := range l3Configs(env.Tier) {
			out := "mocks_" + cfg.Tag() + ".go"
			args := []string{}
			if cfg.OtherPkg {
				out = filepath.Join("other", out)
				args = append(args, "-pkg", "other")
			}
			args = append(args, "-out", out)
			if cfg.Stub {
				args = append(args, "-stub")
			}
			if cfg.Resets {
				args = append(args, "-with-resets")
			}
			if cfg.Skip {
				args = append(args, "-skip-ensure")
			}
			args = append(args, ".")
			for _, in := range ifacesFor(cfg) {
				args = append(args, in+":"+in+"Mock_"+cfg.Tag())
			}
			o, err := runCmd(filepath.Join(root, "corpus"), 5*time.Minute, cliEnv(), bin, args...)
			st.Cmds = append(st.Cmds, "moq "+strings.Join(args, " "))
			if err != nil {
				st.Errs = append(st.Errs, fmt.Sprintf("moq %s: %v: %s", strings.Join(args, " "), err, short(o, 400)))
			}
		}
		repo, err := Load(root, "./corpus/...", "./dep")
		if err != nil {
			st.Errs = append(st.Errs, "generated code does not load: "+short(err.Error(), 1500))
			l3State = st
			st.Gen = time.Since(t0)
			return
		}
		st.Repo = repo
		for _, cfg := range l3Configs(env.Tier) {
			pkgPath := "corpus.example/corpus"
			if cfg.OtherPkg {
				pkgPath += "/other"
			}
			sp := repo.Pkgs[pkgPath]
			if sp == nil {
				st.Errs = append(st.Errs, "package missing: "+pkgPath)
				continue
			}
			src := repo.Pkgs["corpus.example/corpus"]
			for _, in := range ifacesFor(cfg) {
				name := in + "Mock_" + cfg.Tag()
				obj := sp.Pkg.Scope().Lookup(name)
				if obj == nil {
					st.Errs = append(st.Errs, "mock type missing: "+pkgPath+"."+name)
					continue
				}
				m := &L3Mock{Cfg: cfg, Iface: in, Name: name, Pkg: sp, Type: obj.Type().(*types.Named)}
				if io := src.Pkg.Scope().Lookup(in); io != nil {
					m.IfaceObj, _ = io.Type().(*types.Named)
				}
				stt := m.Type.Underlying().(*types.Struct)
				for i := 0; i < stt.NumFields(); i++ {
					fn := stt.Field(i).Name()
					if strings.HasSuffix(fn, "Func") {
						if _, ok := stt.Field(i).Type().Underlying().(*types.Signature); ok {
							m.Methods = append(m.Methods, strings.TrimSuffix(fn, "Func"))
						}
					}
				}
				st.Mocks = append(st.Mocks, m)
			}
		}
		sort.SliceStable(st.Mocks, func(i, j int) bool { return st.Mocks[i].Name < st.Mocks[j].Name })
		st.Gen = time.Since(t0)
		l3State = st
	})
	return l3State, l3Err
}

// ifaceMethodSet returns the method names of the interface a mock was generated for.
func (m *L3Mock) ifaceMethods(repo *Repo) []string {
	src := repo.Pkgs["corpus.example/corpus"]
	obj := src.Pkg.Scope().Lookup(m.Iface)
	if obj == nil {
		return nil
	}
	it, ok := obj.Type().Underlying().(*types.Interface)
	if !ok {
		return nil
	}
	var out []string
	for i := 0; i < it.NumMethods(); i++ {
		out = append(out, it.Method(i).Name())
	}
	return out
}

// method finds a generated method of the mock (pointer receiver).
func (m *L3Mock) method(prog *ssa.Program, name string) *ssa.Function {
	ms := prog.MethodSets.MethodSet(types.NewPointer(m.Type))
	sel := ms.Lookup(m.Pkg.Pkg, name)
	if sel == nil {
		return nil
	}
	return prog.MethodValue(sel)
}
