package h

import (
	"fmt"
	"go/token"
	"go/types"
	"os"
	"path/filepath"
	"strings"

	"moqsym/exec"
	"moqsym/smt"
)

// HPkgPath: findPkgPath / pkgInDir / pkgInfoFromPath with the package loader as environment.
// The environment answers per directory through uninterpreted functions (same directory, same
// answer): load fails, or one package with an arbitrary name (optionally with errors).
func HPkgPath() *Harness {
	hh := &Harness{
		ID:    "H.pkgpath",
		Doc:   "registry.findPkgPath from SSA for symbolic -pkg value, source import path and source package name; packages.Load is the environment (per-directory uninterpreted answers): the destination path is the source path exactly when -pkg is empty or names the source package",
		Funcs: []string{"internal/registry.findPkgPath", "internal/registry.pkgInDir", "internal/registry.pkgInfoFromPath"},
		Assumptions: []string{"packages.Load answers as a function of the directory: error, no package, two packages, a package with errors, or one clean package with an arbitrary name",
			"filepath.Join is an uninterpreted function of its arguments"},
		Bounds:  []string{"all strings unbounded"},
		Outside: []string{"what the go command does while loading"},
		Confirm: pkgpathConfirm,
	}
	hh.Instances = func(env *Env) []Instance {
		return []Instance{{Name: "any -pkg", Run: func(ic *IC) *exec.Stats {
			fn := env.Repo.Fn(pkgRegistry, "findPkgPath")
			stubs := map[string]exec.Stub{}
			stubs["golang.org/x/tools/go/packages.Load"] = func(ex *exec.Exec, c *exec.CallInfo) exec.Value {
				cc := ex.C
				cfgT := c.Sig.Params().At(0).Type().(*types.Pointer).Elem()
				cfg := c.Args[0].(*exec.StructLoc)
				dir := cfg.F[fieldIndex(cfgT, "Dir")].Load(ex).(*smt.Term)
				ex.Emit("Load", "", dir)
				resT := c.Sig.Results().At(0).Type().(*types.Slice).Elem().(*types.Pointer).Elem()
				errT := resT.Underlying().(*types.Struct).Field(fieldIndex(resT, "Errors")).Type().(*types.Slice).Elem()
				mkPkg := func(withErr bool) exec.Value {
					p := ex.NewLoc(resT).(*exec.StructLoc)
					p.F[fieldIndex(resT, "Name")].Store(ex, cc.UF("env_pkg_name", []string{smt.String}, smt.String, dir))
					if withErr {
						arr := &exec.ArrLoc{E: []exec.Loc{ex.NewLoc(errT)}}
						p.F[fieldIndex(resT, "Errors")].Store(ex, exec.Slice{Arr: arr, Len: 1, Cap: 1})
					}
					return p
				}
				slice := func(ps ...exec.Value) exec.Value {
					arr := &exec.ArrLoc{}
					for _, p := range ps {
						arr.E = append(arr.E, &exec.Cell{V: p})
					}
					return exec.Slice{Arr: arr, Len: len(ps), Cap: len(ps)}
				}
				outcome := cc.UF("env_load_outcome", []string{smt.String}, smt.Int, dir)
				guards := make([]*smt.Term, 5)
				for i := range guards {
					guards[i] = cc.Eq(outcome, cc.IntC(int64(i)))
				}
				switch ex.Choose(guards) {
				case 0:
					return exec.Tuple{exec.Slice{}, ex.NewError(cc.StrC("load failed"), "load")}
				case 1:
					return exec.Tuple{slice(), exec.Iface{}}
				case 2:
					return exec.Tuple{slice(mkPkg(false), mkPkg(false)), exec.Iface{}}
				case 3:
					return exec.Tuple{slice(mkPkg(true)), exec.Iface{}}
				}
				return exec.Tuple{slice(mkPkg(false)), exec.Iface{}}
			}
			return ic.Explore(func(ex *exec.Exec) {
				c := ex.C
				ex.LocalStubs = stubs
				pkg := c.Var("flag_pkg", smt.String)
				srcPath := c.Var("src_import_path", smt.String)
				srcName := c.Var("src_pkg_name", smt.String)
				ex.AssumeNoCheck(c.Not(c.Eq(srcName, c.StrC(""))))
				ex.AssumeNoCheck(c.Not(c.Eq(srcPath, c.StrC(""))))
				kfA := env.KF.Open("C10", "pkgpath:explicit-source-package-name")
				kfB := env.KF.Open("C10", "pkgpath:package-name-equals-source-import-path")
				r, pan := ex.CallCatch(fn, []exec.Value{pkg, srcPath})
				if pan != nil {
					ex.Fail("C19/C10: findPkgPath panics: " + pan.Msg)
					return
				}
				res := r.(*smt.Term)
				ic.Witness(ex, nil)
				ex.Oblige(c.Implies(c.Eq(pkg, c.StrC("")), c.Eq(res, srcPath)), "C10: without -pkg the destination is the source package")
				if kfA != nil {
					ic.kfHit("C10", "pkgpath:explicit-source-package-name")
				} else {
					ex.Oblige(c.Implies(c.Eq(pkg, srcName), c.Eq(res, srcPath)), "C10: -pkg naming the source package means the source package itself")
				}
				if kfB != nil {
					// class: some directory asked about holds a package whose NAME equals an import PATH it is compared with
					for _, e := range eventsOf(ex, "Load") {
						d := e.Args[0].(*smt.Term)
						nm := c.UF("env_pkg_name", []string{smt.String}, smt.String, d)
						ex.AssumeDomain(c.And(c.Not(c.Eq(nm, srcPath)), c.Not(c.Eq(c.Concat(nm, c.StrC("_test")), srcPath))))
					}
					ic.kfHit("C10", "pkgpath:package-name-equals-source-import-path")
				}
				ex.Oblige(c.Implies(c.And(c.Not(c.Eq(pkg, c.StrC(""))), c.Not(c.Eq(pkg, srcName)), c.Not(c.Eq(pkg, c.Concat(srcName, c.StrC("_test"))))), c.Not(c.Eq(res, srcPath))),
					"C10: -pkg naming any other package never yields the source package as destination")
				_ = fmt.Sprint
			})
		}}}
	}
	return hh
}

// pkgpathConfirm realises (-pkg value, source package name, what the -pkg directory holds) and checks
// on the real output whether the source package is imported exactly when the destination differs.
func pkgpathConfirm(ic *IC, ob *exec.Obligation) *Violation {
	env := ic.Env
	m := ob.Model
	pkg := m["flag_pkg"]
	srcName := nonEmpty(m["src_pkg_name"], "src")
	if !token.IsIdentifier(srcName) || (pkg != "" && !token.IsIdentifier(pkg)) {
		return nil
	}
	key := fmt.Sprintf("pkgpath:%s:%s:%s", ob.Label, pkg, srcName)
	v := &Violation{Property: "C10", Harness: ic.H.ID, Instance: ic.Name, Label: ob.Label, Model: m, Key: key}
	files := map[string]string{
		"go.mod":   "module src.example\n\ngo 1.21\n",
		"src/x.go": "package " + srcName + "\n\ntype T struct{}\n\ntype I interface{ M(x T) }\n",
	}
	if pkg != "" && pkg != srcName {
		files["src/"+pkg+"/d.go"] = "package " + pkg + "\n"
	}
	args := []string{}
	if pkg != "" {
		args = append(args, "-pkg", pkg)
	}
	args = append(args, ".", "I")
	cs := &CLICase{Files: files, Cwd: "src", Args: args}
	dir := env.replayDir("C10", key)
	v.Replay = dir
	writeTree(filepath.Join(dir, "tree"), files)
	res, root, err := env.RunCLI(cs)
	if root != "" {
		defer os.RemoveAll(root)
	}
	if err != nil {
		v.Detail = err.Error()
		return v
	}
	importsSrc := strings.Contains(res.Out, "\"src.example/src\"")
	same := pkg == "" || pkg == srcName
	tr := fmt.Sprintf("moq %s (in src/, package %s)\nexit=%d imports the source package=%v destination is the source package=%v\n%s\n", strings.Join(args, " "), srcName, res.Exit, importsSrc, same, short(res.Out, 300))
	os.WriteFile(filepath.Join(dir, "replay.out"), []byte(tr), 0o644)
	os.WriteFile(filepath.Join(dir, "replay.sh"), []byte("#!/bin/sh\ncat \"$(dirname \"$0\")/replay.out\"\n"), 0o755)
	v.Confirmed = res.Exit == 0 && importsSrc == same
	if res.Exit != 0 && strings.Contains(res.Out, "go/format") {
		v.Confirmed = true
	}
	v.Detail = tr
	return v
}
