package h

import (
	"bytes"
	"crypto/sha1"
	"encoding/json"
	"fmt"
	"os"
	osexec "os/exec"
	"path/filepath"
	"strings"
	"time"
)

func (env *Env) replayDir(prop, key string) string {
	sum := sha1.Sum([]byte(key))
	d := filepath.Join(env.VerifDir, "replays", prop, fmt.Sprintf("%x", sum[:6]))
	os.MkdirAll(d, 0o755)
	return d
}

// runCmd runs a command with a timeout and returns combined output.
func runCmd(dir string, timeout time.Duration, env []string, name string, args ...string) (string, error) {
	cmd := osexec.Command(name, args...)
	cmd.Dir = dir
	cmd.Env = env
	var buf bytes.Buffer
	cmd.Stdout = &buf
	cmd.Stderr = &buf
	if err := cmd.Start(); err != nil {
		return "", err
	}
	done := make(chan error, 1)
	go func() { done <- cmd.Wait() }()
	select {
	case err := <-done:
		return buf.String(), err
	case <-time.After(timeout):
		cmd.Process.Kill()
		<-done
		return buf.String(), fmt.Errorf("timeout after %s", timeout)
	}
}

// replayUnit replays a counterexample as an in-package Go test of the real code (go test -overlay).
// The test must print REPRODUCED when the violation shows on the real build.
func (ic *IC) replayUnit(v *Violation, relPkg, testSrc string) {
	env := ic.Env
	dir := env.replayDir(v.Property, v.Key)
	testFile := filepath.Join(dir, "zz_replay_test.go")
	os.WriteFile(testFile, []byte(testSrc), 0o644)
	virt := filepath.Join(env.RepoDir, relPkg, "zz_replay_test.go")
	ov, _ := json.Marshal(map[string]any{"Replace": map[string]string{virt: testFile}})
	os.WriteFile(filepath.Join(dir, "overlay.json"), ov, 0o644)
	mj, _ := json.MarshalIndent(map[string]any{"property": v.Property, "harness": v.Harness, "instance": v.Instance, "label": v.Label, "model": v.Model}, "", " ")
	os.WriteFile(filepath.Join(dir, "model.json"), mj, 0o644)
	sh := fmt.Sprintf("#!/bin/sh\n# replays the solver's counterexample against the real code in %s\ncd %s && GOFLAGS=-mod=mod GOPROXY=off go test -vet=off -count=1 -run TestZZReplay -overlay %s ./%s\n",
		env.RepoDir, env.RepoDir, filepath.Join(dir, "overlay.json"), relPkg)
	os.WriteFile(filepath.Join(dir, "replay.sh"), []byte(sh), 0o755)
	out, _ := runCmd(env.RepoDir, 5*time.Minute, goEnv(), "go", "test", "-vet=off", "-count=1", "-run", "TestZZReplay", "-overlay", filepath.Join(dir, "overlay.json"), "./"+relPkg)
	os.WriteFile(filepath.Join(dir, "replay.out"), []byte(out), 0o644)
	v.Replay = dir
	v.Confirmed = strings.Contains(out, "REPRODUCED")
	v.Detail = short(strings.TrimSpace(out), 600)
	if !v.Confirmed {
		// keep the directory for diagnosis but mark it
		os.WriteFile(filepath.Join(dir, "UNCONFIRMED"), []byte("the model did not reproduce on the real build; this is an encoding defect, not a violation\n"), 0o644)
	}
}
