package h

import (
	"encoding/json"
	"fmt"
	"go/types"
	"os"
	"path/filepath"
	"runtime"
	"sort"
	"strings"
	"sync"
	"time"

	"moqsym/exec"
	"moqsym/smt"
)

func ptrTo(t types.Type) types.Type { return types.NewPointer(t) }

// Env is what a check run shares.
type Env struct {
	Repo     *Repo
	RepoDir  string
	VerifDir string
	Tier     string
	Prop     string
	Seed     int64
	Solver   string
	Timeout  int
	Workers  int
	KF       *KnownFindings
	Scratch  string // removed at exit
	mu       sync.Mutex
	pools    map[*Repo]chan *exec.World
	owner    map[*exec.World]*Repo
	sem      chan struct{}
	allW     []*exec.World
	L3       any
}

// IC is the context of one harness instance.
type IC struct {
	Env                                    *Env
	H                                      *Harness
	Name                                   string
	StrBound, MaxDepth, MaxSteps, MaxPaths int
	mu                                     sync.Mutex
	witness                                bool
	kfSeen                                 map[string]bool
	Repo                                   *Repo // program to interpret (default: the moq repository)
	reached                                int
	Samples                                []any
	Viol                                   []Violation
	Known                                  []string
	Inconcl                                []string
	Notes                                  []string
	Validated                              int
}

// Violation is a solver counterexample, to be replayed before it is reported.
type Violation struct {
	Property  string
	Harness   string
	Instance  string
	Label     string
	Model     map[string]string
	Confirmed bool
	Replay    string
	Detail    string
	Key       string   // identity for known-findings matching
	Props     []string // further properties the violation also breaks
}

// concerns reports whether a violation belongs to the given property.
func (v *Violation) concerns(prop string) bool {
	if v.Property == prop {
		return true
	}
	for _, p := range v.Props {
		if p == prop {
			return true
		}
	}
	return false
}

// labelProps extracts the property tags of an obligation label ("C17: ...", "C02/C20: ...").
// Untagged labels belong to every property that runs the harness.
func labelProps(label string) []string {
	label = strings.TrimPrefix(label, "no runtime panic: ")
	i := strings.Index(label, ":")
	if i < 3 || label[0] != 'C' {
		return nil
	}
	var out []string
	for _, p := range strings.Split(label[:i], "/") {
		if len(p) >= 3 && p[0] == 'C' && p[1] >= '0' && p[1] <= '9' {
			out = append(out, p)
		} else {
			return nil
		}
	}
	return out
}

func labelConcerns(label, prop string) bool {
	ps := labelProps(label)
	if ps == nil {
		return true
	}
	for _, p := range ps {
		if p == prop {
			return true
		}
	}
	return false
}

// Harness describes one symbolic harness.
type Harness struct {
	ID          string
	Doc         string
	Funcs       []string
	Bounds      []string
	Outside     []string
	Assumptions []string
	Instances   func(env *Env) []Instance
	// Confirm replays a violated obligation against the real code; nil result = cannot be replayed.
	Confirm func(ic *IC, ob *exec.Obligation) *Violation
}

type Instance struct {
	Name string
	Run  func(ic *IC) *exec.Stats
}

// HResult aggregates all instances of one harness.
type HResult struct {
	H         *Harness
	Stats     exec.Stats
	Instances int
	Vacuous   []string
	Samples   []any
	Viol      []Violation
	Known     []string
	Inconcl   []string
	Notes     []string
	Validated int
	Wall      time.Duration
}

func (env *Env) newWorld(repo *Repo) *exec.World {
	w, err := repo.NewWorld(env.Solver, env.Timeout)
	if err != nil {
		panic(err)
	}
	if repo == env.Repo {
		for k, v := range NewTM(env.Repo).Stubs() {
			w.Stubs[k] = v
		}
		for k, v := range MockEnvStubs() {
			w.Stubs[k] = v
		}
		for k, v := range RunGlobals() {
			w.GlobalGen[k] = v
		}
		if err := repo.RunInits(w); err != nil {
			panic(err)
		}
	} else {
		for k, v := range L3Stubs() {
			w.Stubs[k] = v
		}
	}
	w.Trace = os.Getenv("MOQSYM_TRACE") != ""
	if f := os.Getenv("MOQSYM_SMTLOG"); f != "" {
		lf, _ := os.Create(f)
		w.S.Log = lf
	}
	env.mu.Lock()
	env.allW = append(env.allW, w)
	env.mu.Unlock()
	return w
}

// getWorld blocks until one of the env.Workers solver slots is free.
func (env *Env) getWorld(repo *Repo) *exec.World {
	env.mu.Lock()
	if env.sem == nil {
		env.sem = make(chan struct{}, env.Workers)
		env.pools = map[*Repo]chan *exec.World{}
		env.owner = map[*exec.World]*Repo{}
	}
	pool := env.pools[repo]
	if pool == nil {
		pool = make(chan *exec.World, env.Workers+1)
		env.pools[repo] = pool
	}
	env.mu.Unlock()
	env.sem <- struct{}{}
	select {
	case w := <-pool:
		return w
	default:
	}
	w := env.newWorld(repo)
	env.mu.Lock()
	env.owner[w] = repo
	env.mu.Unlock()
	return w
}

func (env *Env) putWorld(w *exec.World) {
	env.mu.Lock()
	pool := env.pools[env.owner[w]]
	env.mu.Unlock()
	pool <- w
	<-env.sem
}

func (env *Env) Close() {
	for _, w := range env.allW {
		w.S.Close()
	}
	if env.Scratch != "" {
		os.RemoveAll(env.Scratch)
	}
}

// Explore explores all paths of body on the shared pool of solver workers.
func (ic *IC) Explore(body func(ex *exec.Exec)) *exec.Stats {
	env := ic.Env
	repo := ic.Repo
	if repo == nil {
		repo = env.Repo
	}
	get := func() *exec.World {
		w := env.getWorld(repo)
		w.StrBound = ic.StrBound
		w.MaxDepth = ic.MaxDepth
		w.MaxSteps = ic.MaxSteps
		return w
	}
	return exec.ExploreMulti(get, env.putWorld, env.Workers, ic.MaxPaths, body)
}

// RunHarness runs all instances of a harness; instances and their paths share the worker pool.
func (env *Env) RunHarness(hh *Harness) *HResult {
	t0 := time.Now()
	insts := hh.Instances(env)
	if f := os.Getenv("MOQSYM_INST"); f != "" {
		var keep []Instance
		for _, in := range insts {
			if strings.Contains(in.Name, f) {
				keep = append(keep, in)
			}
		}
		insts = keep
	}
	res := &HResult{H: hh, Instances: len(insts)}
	var mu sync.Mutex
	var wg sync.WaitGroup
	sem := make(chan struct{}, env.Workers)
	for _, in := range insts {
		in := in
		wg.Add(1)
		sem <- struct{}{}
		go func() {
			defer wg.Done()
			defer func() { <-sem }()
			ic := &IC{Env: env, H: hh, Name: in.Name}
			var st *exec.Stats
			func() {
				defer func() {
					if r := recover(); r != nil {
						buf := make([]byte, 4096)
						n := runtime.Stack(buf, false)
						ic.Inconcl = append(ic.Inconcl, fmt.Sprintf("engine failure in %s/%s: %v\n%s", hh.ID, in.Name, r, buf[:n]))
						st = &exec.Stats{}
					}
				}()
				st = in.Run(ic)
				ic.collectViolated(st)
				ic.settleKnown()
			}()
			mu.Lock()
			defer mu.Unlock()
			res.Stats.Merge(st)
			if !ic.witness {
				res.Vacuous = append(res.Vacuous, in.Name)
			}
			if len(res.Samples) < 6 {
				res.Samples = append(res.Samples, ic.Samples...)
			}
			res.Viol = append(res.Viol, ic.Viol...)
			res.Known = append(res.Known, ic.Known...)
			res.Inconcl = append(res.Inconcl, ic.Inconcl...)
			res.Notes = append(res.Notes, ic.Notes...)
			res.Validated += ic.Validated
		}()
	}
	wg.Wait()
	res.Wall = time.Since(t0)
	return res
}

func (ic *IC) addViol(v Violation) {
	ic.mu.Lock()
	defer ic.mu.Unlock()
	for _, o := range ic.Viol {
		if o.Key == v.Key {
			return
		}
	}
	ic.Viol = append(ic.Viol, v)
}

// faultWeight orders counterexamples: models with fewer injected faults are replayed first.
func faultWeight(m map[string]string) int {
	w := 0
	for k, v := range m {
		if strings.HasPrefix(k, "fault_") && v == "true" {
			w += 2
		}
		if strings.HasPrefix(k, "outcome_") && v != "0" {
			w++
		}
	}
	return w
}

// collectViolated turns violated obligations into (replayed) violations: per distinct assertion,
// counterexamples are replayed (simplest first) until one reproduces on the real build.
func (ic *IC) collectViolated(st *exec.Stats) {
	byLabel := map[string][]*exec.Obligation{}
	var labels []string
	for i := range st.Obligations {
		ob := &st.Obligations[i]
		if ob.Result != "violated" || ob.Handled || !labelConcerns(ob.Label, ic.Env.Prop) {
			continue
		}
		if _, ok := byLabel[ob.Label]; !ok {
			labels = append(labels, ob.Label)
		}
		byLabel[ob.Label] = append(byLabel[ob.Label], ob)
	}
	for _, label := range labels {
		cands := byLabel[label]
		sort.SliceStable(cands, func(i, j int) bool { return faultWeight(cands[i].Model) < faultWeight(cands[j].Model) })
		if len(cands) > 6 {
			cands = cands[:6]
		}
		var last *Violation
		for _, ob := range cands {
			var v *Violation
			if ic.H.Confirm != nil {
				v = ic.H.Confirm(ic, ob)
			}
			if v == nil {
				v = &Violation{Harness: ic.H.ID, Instance: ic.Name, Label: ob.Label, Model: ob.Model, Key: ic.H.ID + "/" + ic.Name + "/" + ob.Label,
					Detail: "no replay generator for this assertion"}
			}
			if v.Property == "" {
				v.Property = ic.Env.Prop
				if ps := labelProps(ob.Label); len(ps) > 0 {
					v.Property = ps[0]
					v.Props = ps[1:]
				}
			}
			last = v
			if v.Confirmed {
				break
			}
		}
		if last != nil {
			ic.addViol(*last)
		}
	}
}

func (ic *IC) hasViol(key string) bool {
	ic.mu.Lock()
	defer ic.mu.Unlock()
	for _, o := range ic.Viol {
		if o.Key == key {
			return true
		}
	}
	return false
}

func (ic *IC) note(s string) {
	ic.mu.Lock()
	defer ic.mu.Unlock()
	ic.Notes = append(ic.Notes, s)
}

// kfHit records that a path ran into an open known-finding class (instead of failing).
func (ic *IC) kfHit(prop, class string) {
	ic.mu.Lock()
	defer ic.mu.Unlock()
	if ic.kfSeen == nil {
		ic.kfSeen = map[string]bool{}
	}
	ic.kfSeen[prop+"\x00"+class] = true
}

var witnessOnce sync.Map // class -> *witnessResult

type witnessResult struct {
	once   sync.Once
	ok     bool
	detail string
}

// settleKnown replays the recorded witness of every known-finding class hit by this instance.
func (ic *IC) settleKnown() {
	ic.mu.Lock()
	var hits []string
	for k := range ic.kfSeen {
		hits = append(hits, k)
	}
	ic.mu.Unlock()
	for _, k := range hits {
		parts := strings.SplitN(k, "\x00", 2)
		kf := ic.Env.KF.Open(parts[0], parts[1])
		_ = parts[0]
		if kf == nil {
			continue
		}
		wr, _ := witnessOnce.LoadOrStore(k, &witnessResult{})
		w := wr.(*witnessResult)
		w.once.Do(func() { w.ok, w.detail = ic.Env.checkWitness(kf) })
		if !kf.concerns(ic.Env.Prop) {
			continue
		}
		if w.ok {
			ic.known(kf.What)
		} else {
			ic.known(kf.What + " [symbolic model still fails; recorded CLI witness did not reproduce here: " + w.detail + "]")
		}
	}
}

func (ic *IC) known(s string) {
	ic.mu.Lock()
	defer ic.mu.Unlock()
	ic.Known = append(ic.Known, s)
}

// Witness is the vacuity guard: the path that reached the final assertion must be satisfiable.
// It is the twin harness whose final assert(false) must come back violated.
func (ic *IC) Witness(ex *exec.Exec, describe func(model map[string]string) any) {
	ic.mu.Lock()
	ic.reached++
	done := ic.witness
	ic.mu.Unlock()
	if done {
		return
	}
	m := ex.ModelOf(nil)
	if m["$status"] != "" {
		return
	}
	ic.mu.Lock()
	defer ic.mu.Unlock()
	if ic.witness {
		return
	}
	ic.witness = true
	if describe != nil {
		ic.Samples = append(ic.Samples, map[string]any{"harness": ic.H.ID, "instance": ic.Name, "reachability_witness": describe(m)})
	} else {
		ic.Samples = append(ic.Samples, map[string]any{"harness": ic.H.ID, "instance": ic.Name, "reachability_witness": m})
	}
}

// ---- evidence ----

type Evidence struct {
	PropertyID  string         `json:"property_id"`
	Tier        string         `json:"tier"`
	Seed        int64          `json:"seed"`
	Level       string         `json:"level"`
	Coverage    map[string]any `json:"coverage"`
	Assumptions []string       `json:"assumptions"`
	WallS       float64        `json:"wall_s"`
	Violations  int            `json:"violations"`
}

// PropResult is the outcome of all harnesses of one property.
type PropResult struct {
	ID      string
	Results []*HResult
	Extra   map[string]any
	Wall    time.Duration
	Viol    []Violation // confirmed, not known
	Known   []string
	Unconf  []Violation
	Other   []string // violations of other properties seen while running shared harnesses
}

func uniq(ss []string) []string {
	m := map[string]bool{}
	out := []string{}
	for _, s := range ss {
		if !m[s] {
			m[s] = true
			out = append(out, s)
		}
	}
	sort.Strings(out)
	return out
}

func truncateList(ss []string, n int) []string {
	if len(ss) <= n {
		return ss
	}
	out := append([]string(nil), ss[:n]...)
	return append(out, fmt.Sprintf("... and %d more", len(ss)-n))
}

// WriteEvidence writes /verif/evidence/<id>.json.
func (env *Env) WriteEvidence(pr *PropResult) error {
	cov := map[string]any{}
	var states, trans int64
	var obligations, discharged, inconcl, violated, implicit, otherObl int
	var queries int
	var solverT time.Duration
	funcs := map[string]int{}
	stubs := map[string]int{}
	unw := map[string]int{}
	var samples []any
	var bounds, outside, assumptions, harnesses, inconclMsgs, notes []string
	vac := []string{}
	validated := 0
	instances := 0
	for _, r := range pr.Results {
		states += int64(r.Stats.Paths)
		trans += r.Stats.Steps
		queries += r.Stats.Queries
		solverT += r.Stats.SolverTime
		instances += r.Instances
		for _, o := range r.Stats.Obligations {
			if !labelConcerns(o.Label, pr.ID) {
				otherObl++
				continue
			}
			obligations++
			if o.Implicit {
				implicit++
			}
			switch o.Result {
			case "discharged":
				discharged++
			case "violated":
				violated++
			default:
				inconcl++
				inconclMsgs = append(inconclMsgs, r.H.ID+": solver unknown on: "+o.Label)
			}
		}
		for k, v := range r.Stats.Funcs {
			funcs[k] += v
		}
		for k, v := range r.Stats.Stubs {
			stubs[k] += v
		}
		for k, v := range r.Stats.Unwound {
			unw[k] = v
		}
		samples = append(samples, r.Samples...)
		bounds = append(bounds, prefixAll(r.H.ID, r.H.Bounds)...)
		outside = append(outside, prefixAll(r.H.ID, r.H.Outside)...)
		assumptions = append(assumptions, prefixAll(r.H.ID, r.H.Assumptions)...)
		harnesses = append(harnesses, fmt.Sprintf("%s: %d instances, %d paths, %d SSA instructions, %d obligations (%d discharged), %d solver queries in %.1fs — %s",
			r.H.ID, r.Instances, r.Stats.Paths, r.Stats.Steps, len(r.Stats.Obligations), r.Stats.Count("discharged"), r.Stats.Queries, r.Stats.SolverTime.Seconds(), r.H.Doc))
		for _, v := range r.Vacuous {
			vac = append(vac, r.H.ID+"/"+v)
		}
		for _, m := range r.Stats.Inconclusive {
			inconclMsgs = append(inconclMsgs, r.H.ID+": "+m)
		}
		inconclMsgs = append(inconclMsgs, r.Inconcl...)
		notes = append(notes, r.Notes...)
		validated += r.Validated
	}
	if states == 0 {
		states = 1
	}
	if trans == 0 {
		trans = 1
	}
	if len(samples) == 0 {
		samples = append(samples, "no sample recorded")
	}
	if len(samples) > 12 {
		samples = samples[:12]
	}
	var fl []string
	for k, v := range funcs {
		fl = append(fl, fmt.Sprintf("%s ×%d", k, v))
	}
	sort.Strings(fl)
	var sl []string
	for k, v := range stubs {
		sl = append(sl, fmt.Sprintf("%s ×%d", k, v))
	}
	sort.Strings(sl)
	cov["states"] = states
	cov["transitions"] = trans
	cov["traces_validated_against_impl"] = validated
	cov["samples"] = samples
	cov["obligations"] = obligations
	cov["discharged"] = discharged
	cov["violated_obligations"] = violated
	cov["inconclusive_obligations"] = inconcl
	cov["implicit_safety_obligations"] = implicit
	cov["harness_instances"] = instances
	cov["obligations_of_other_properties_skipped"] = otherObl
	cov["violations_of_other_properties_seen"] = uniq(pr.Other)
	cov["harnesses"] = harnesses
	cov["functions_encoded"] = fl
	cov["stubs_used"] = sl
	cov["bounds"] = uniq(bounds)
	cov["outside_bounds"] = uniq(outside)
	cov["queries"] = queries
	cov["solver_time_s"] = solverT.Seconds()
	cov["solvers"] = []string{env.Solver}
	cov["vacuous_instances"] = vac
	cov["inconclusive"] = truncateList(uniq(inconclMsgs), 40)
	cov["inconclusive_count"] = len(uniq(inconclMsgs))
	cov["notes"] = truncateList(uniq(notes), 40)
	cov["known_findings_reported"] = uniq(pr.Known)
	unconf := []any{}
	for _, v := range pr.Unconf {
		unconf = append(unconf, map[string]any{"harness": v.Harness, "instance": v.Instance, "label": v.Label, "model": v.Model, "detail": v.Detail})
	}
	if len(unconf) > 10 {
		unconf = unconf[:10]
	}
	cov["unconfirmed_models"] = unconf
	cov["repo_load_s"] = env.Repo.LoadTime.Seconds()
	cov["explanation"] = "states = symbolic paths explored (each a set of concrete executions described by a path condition); transitions = SSA instructions executed symbolically; obligations are solver queries pc ∧ ¬assertion that must be unsat."
	for k, v := range pr.Extra {
		cov[k] = v
	}
	ev := Evidence{PropertyID: pr.ID, Tier: env.Tier, Seed: env.Seed, Level: "model_checking", Coverage: cov,
		Assumptions: uniq(assumptions), WallS: pr.Wall.Seconds(), Violations: len(pr.Viol)}
	b, err := json.MarshalIndent(ev, "", " ")
	if err != nil {
		return err
	}
	dir := filepath.Join(env.VerifDir, "evidence")
	os.MkdirAll(dir, 0o755)
	return os.WriteFile(filepath.Join(dir, pr.ID+".json"), b, 0o644)
}

func prefixAll(p string, ss []string) []string {
	out := make([]string, len(ss))
	for i, s := range ss {
		out[i] = p + ": " + s
	}
	return out
}

// ---- known findings ----

type KnownFinding struct {
	Property string   `json:"property"`
	Also     []string `json:"also,omitempty"` // further properties the same defect breaks
	Class    string   `json:"class"`
	Status   string   `json:"status"` // open | fixed:<commit>
	What     string   `json:"what"`
	Witness  any      `json:"witness,omitempty"`
}

func (k *KnownFinding) concerns(prop string) bool {
	if k.Property == prop {
		return true
	}
	for _, p := range k.Also {
		if p == prop {
			return true
		}
	}
	return false
}

type KnownFindings struct {
	Findings []KnownFinding `json:"findings"`
	Fixed    []string       `json:"fixed,omitempty"`
}

func LoadKnown(path string) *KnownFindings {
	kf := &KnownFindings{}
	b, err := os.ReadFile(path)
	if err != nil {
		return kf
	}
	if err := json.Unmarshal(b, kf); err != nil {
		panic("known_findings.json: " + err.Error())
	}
	return kf
}

// Open returns the open finding of the given class (whatever property is being checked: the class
// is excluded from every harness run, but KNOWN-FINDING is only printed for the properties it concerns).
func (k *KnownFindings) Open(prop, class string) *KnownFinding {
	if k == nil {
		return nil
	}
	for i := range k.Findings {
		f := &k.Findings[i]
		if f.Class == class && f.Status == "open" {
			return f
		}
	}
	return nil
}

// helpers shared by harnesses

func S(ex *exec.Exec, s string) *smt.Term { return ex.C.StrC(s) }

func modelStr(m map[string]string, name string) string { return m[name] }

func short(s string, n int) string {
	if len(s) > n {
		return s[:n] + "…"
	}
	return s
}

var _ = strings.Join
