package h

import (
	"fmt"
	"go/ast"
	"go/parser"
	"go/token"
	"go/types"
	"os"
	"path/filepath"
	"strings"

	"moqsym/exec"
	"moqsym/smt"
)

// varnameTypes: the parameter types whose derived names are pinned ($L = a local named type, $P.T = an imported one).
var varnameTypes = []string{"string", "int", "int8", "int64", "rune", "uint", "uint8", "byte", "uintptr", "float32", "float64", "bool", "complex128", "error",
	"$L", "*$L", "[]$L", "[3]$L", "[2]string", "[4]float64", "[]byte", "[]int", "map[string]int", "map[$L][]$L", "chan int", "<-chan $L", "chan<- string",
	"func(int) string", "struct{ X int }", "interface{ Do() }", "$P.T", "[]*$P.T", "[5]*$P.T", "map[string]$P.T", "**$L", "[][]string"}

var varnameReserved = []string{"mock", "callInfo", "break", "default", "func", "interface", "select", "case", "defer", "go", "map", "struct",
	"chan", "else", "goto", "package", "switch", "const", "fallthrough", "if", "range", "type", "continue", "for", "import", "return", "var",
	"string", "bool", "byte", "rune", "uintptr", "int", "int8", "int16", "int32", "int64", "uint", "uint8", "uint16", "uint32", "uint64",
	"float32", "float64", "complex64", "complex128"}

func deCapTerm(ex *exec.Exec, t *smt.Term) *smt.Term {
	c := ex.C
	if t.IsConst {
		if t.S == "" {
			return t
		}
		return c.StrC(strings.ToLower(t.S[:1]) + t.S[1:])
	}
	return c.Concat(ex.CaseMap(c.Substr(t, c.IntC(0), c.IntC(1)), false, 1), c.Substr(t, c.IntC(1), c.Sub(c.Len(t), c.IntC(1))))
}

func capTerm(ex *exec.Exec, t *smt.Term) *smt.Term {
	c := ex.C
	if t.IsConst {
		if t.S == "" {
			return t
		}
		return c.StrC(strings.ToUpper(t.S[:1]) + t.S[1:])
	}
	return c.Concat(ex.CaseMap(c.Substr(t, c.IntC(0), c.IntC(1)), true, 1), c.Substr(t, c.IntC(1), c.Sub(c.Len(t), c.IntC(1))))
}

// refVarNameForType: the harness's own copy of the derivation rule (var.go's doc comment and the
// GenerateParamNames / ShadowTypes golden files pin it: s, n for signed integers, f, b, err, the
// de-capitalised type name, element name + s, keyToElem, elemCh, fn, val, ifaceVal, v otherwise).
func refVarNameForType(ex *exec.Exec, t *MType) *smt.Term {
	c := ex.C
	nested := func(t *MType) *smt.Term {
		if t.K == "Basic" {
			return deCapTerm(ex, c.StrC(t.Basic.String()))
		}
		return refVarNameForType(ex, t)
	}
	switch t.K {
	case "Named":
		name := t.Obj.Name
		d := deCapTerm(ex, name)
		r := c.Ite(c.Eq(d, name), c.Concat(d, c.StrC("MoqParam")), d)
		return c.Ite(c.Eq(name, c.StrC("error")), c.StrC("err"), r)
	case "Basic":
		switch t.Basic.Info() {
		case types.IsBoolean:
			return c.StrC("b")
		case types.IsInteger:
			return c.StrC("n")
		case types.IsFloat:
			return c.StrC("f")
		case types.IsString:
			return c.StrC("s")
		}
		return c.StrC("v")
	case "Array", "Slice":
		return c.Concat(nested(t.Elem), c.StrC("s"))
	case "Struct":
		return c.StrC("val")
	case "Pointer":
		return refVarNameForType(ex, t.Elem)
	case "Signature":
		return c.StrC("fn")
	case "Interface":
		return c.StrC("ifaceVal")
	case "Map":
		return c.Concat(nested(t.Key), c.StrC("To"), capTerm(ex, nested(t.Elem)))
	case "Chan":
		return c.Concat(nested(t.Elem), c.StrC("Ch"))
	}
	return c.StrC("v")
}

func varnameSrc(l, p string) []SrcPkg {
	var ms []string
	for i, ty := range varnameTypes {
		ty = strings.ReplaceAll(strings.ReplaceAll(ty, "$L", l), "$P", p)
		ms = append(ms, fmt.Sprintf("\tM%02d(%s)", i, ty))
	}
	return []SrcPkg{
		{"dep.example/one/pone", "package " + p + "\ntype T struct{}\n"},
		{"src.example/src", "package src\nimport " + p + " \"dep.example/one/pone\"\nvar _ " + p + ".T\ntype " + l + " struct{}\ntype I interface {\n" + strings.Join(ms, "\n") + "\n}\n"},
	}
}

// HVarName: names derived from types for unnamed parameters, against the reference rule.
func HVarName() *Harness {
	hh := &Harness{
		ID:          "H.varname",
		Doc:         "registry.varName / varNameForType from SSA on unnamed parameters of 36 type shapes (every constructor, basic kinds, a local named type with a symbolic name, an imported type): the suggested name equals the harness's independent copy of the derivation rule, reserved words get the MoqParam suffix, no slice-bound failure in capitalise/deCapitalise",
		Funcs:       []string{"internal/registry.varName", "internal/registry.varNameForType", "internal/registry.varNameForType$1", "internal/registry.basicTypeVarName", "internal/registry.capitalise", "internal/registry.deCapitalise"},
		Assumptions: []string{"the rule for the constructors the property text does not spell out (maps, channels, arrays, func, struct, interface, unsigned integers ↦ v) is read off the GenerateParamNames and ShadowTypes golden files"},
		Outside:     []string{"type shapes deeper than those listed", "names longer than the bound"},
		Confirm:     varnameConfirm,
	}
	hh.Instances = func(env *Env) []Instance {
		bound := 6
		hh.Bounds = []string{fmt.Sprintf("%d parameter types; the local type's name is symbolic (≤ %d chars)", len(varnameTypes), bound)}
		pkgs, _, err := TypeCheck(varnameSrc("ZzL", "zzp"))
		if err != nil {
			panic(err)
		}
		return []Instance{{Name: "unnamed-parameters", Run: func(ic *IC) *exec.Stats {
			ic.StrBound = bound
			varNameFn := env.Repo.Fn(pkgRegistry, "varName")
			return ic.Explore(func(ex *exec.Exec) {
				c := ex.C
				tm := NewTM(env.Repo)
				ex.User["tm"] = tm
				lname := symIdent(ex, "name_L", bound)
				ex.AssumeNoCheck(c.Not(c.Eq(lname, c.StrC("_"))))
				cv := NewConv(ex)
				cv.NameOf = func(o types.Object) *smt.Term {
					if o.Name() == "ZzL" {
						return lname
					}
					return nil
				}
				iface := pkgs["src.example/src"].Scope().Lookup("I").Type().Underlying().(*types.Interface)
				ic.Witness(ex, nil)
				var conds []*smt.Term
				var labels []string
				for i := 0; i < iface.NumMethods(); i++ {
					m := iface.Method(i)
					var idx int
					fmt.Sscanf(m.Name(), "M%02d", &idx)
					sig := m.Type().(*types.Signature)
					pv := cv.Obj(sig.Params().At(0))
					r, pan := ex.CallCatch(varNameFn, []exec.Value{pv, c.StrC("")})
					if pan != nil {
						ex.Fail(fmt.Sprintf("C19/C13: varName panics on an unnamed parameter of type %s: %s", varnameTypes[idx], pan.Msg))
						continue
					}
					want := refVarNameForType(ex, pv.Typ)
					var res []*smt.Term
					for _, w := range varnameReserved {
						res = append(res, c.Eq(want, c.StrC(w)))
					}
					want = c.Ite(c.Or(res...), c.Concat(want, c.StrC("MoqParam")), want)
					conds = append(conds, c.Eq(r.(*smt.Term), want))
					labels = append(labels, fmt.Sprintf("C13: the name derived for an unnamed parameter of type %s follows the fixed rule", varnameTypes[idx]))
				}
				for i := range conds {
					ex.Oblige(conds[i], labels[i])
				}
			})
		}}}
	}
	return hh
}

// goRefVarName: the same rule on real go/types (for replays).
func goRefVarName(t types.Type) string {
	nested := func(t types.Type) string {
		if b, ok := t.(*types.Basic); ok {
			s := b.String()
			return strings.ToLower(s[:1]) + s[1:]
		}
		return goRefVarName(t)
	}
	switch x := t.(type) {
	case *types.Named:
		if x.Obj().Name() == "error" {
			return "err"
		}
		n := x.Obj().Name()
		d := strings.ToLower(n[:1]) + n[1:]
		if d == n {
			d += "MoqParam"
		}
		return d
	case *types.Basic:
		switch x.Info() {
		case types.IsBoolean:
			return "b"
		case types.IsInteger:
			return "n"
		case types.IsFloat:
			return "f"
		case types.IsString:
			return "s"
		}
		return "v"
	case *types.Array:
		return nested(x.Elem()) + "s"
	case *types.Slice:
		return nested(x.Elem()) + "s"
	case *types.Struct:
		return "val"
	case *types.Pointer:
		return goRefVarName(x.Elem())
	case *types.Signature:
		return "fn"
	case *types.Interface:
		return "ifaceVal"
	case *types.Map:
		e := nested(x.Elem())
		return nested(x.Key()) + "To" + strings.ToUpper(e[:1]) + e[1:]
	case *types.Chan:
		return nested(x.Elem()) + "Ch"
	}
	return "v"
}

func varnameConfirm(ic *IC, ob *exec.Obligation) *Violation {
	env := ic.Env
	l := nonEmpty(ob.Model["name_L"], "Local")
	if !token.IsIdentifier(l) {
		return nil
	}
	key := "varname:" + l + ":" + ob.Label
	v := &Violation{Property: "C13", Harness: ic.H.ID, Instance: ic.Name, Label: ob.Label, Model: ob.Model, Key: key}
	dir := env.replayDir("C13", key)
	v.Replay = dir
	src := varnameSrc(l, "pone")
	files := map[string]string{"go.work": "go 1.21\n\nuse (\n\t.\n\t./m1\n)\n", "go.mod": "module src.example\n\ngo 1.21\n", "src/x.go": src[1].Src,
		"m1/go.mod": "module dep.example/one\n\ngo 1.21\n", "m1/pone/p.go": src[0].Src}
	writeTree(filepath.Join(dir, "tree"), files)
	cs := &CLICase{Files: files, Cwd: "src", Args: []string{".", "I"}}
	res, root, err := env.RunCLI(cs)
	if root != "" {
		defer os.RemoveAll(root)
	}
	if err != nil {
		v.Detail = err.Error()
		return v
	}
	pkgs, _, terr := TypeCheck(src)
	var tr strings.Builder
	fmt.Fprintf(&tr, "moq . I (in tree/src), exit %d\n", res.Exit)
	if terr == nil && res.Exit == 0 {
		fset := token.NewFileSet()
		f, perr := parser.ParseFile(fset, "out.go", res.Out, 0)
		iface := pkgs["src.example/src"].Scope().Lookup("I").Type().Underlying().(*types.Interface)
		if perr == nil {
			got := map[string]string{}
			for _, d := range f.Decls {
				if fd, ok := d.(*ast.FuncDecl); ok && fd.Recv != nil && len(fd.Type.Params.List) == 1 && len(fd.Type.Params.List[0].Names) == 1 {
					got[fd.Name.Name] = fd.Type.Params.List[0].Names[0].Name
				}
			}
			for i := 0; i < iface.NumMethods(); i++ {
				m := iface.Method(i)
				want := goRefVarName(m.Type().(*types.Signature).Params().At(0).Type())
				for _, w := range varnameReserved {
					if want == w {
						want += "MoqParam"
					}
				}
				if g := got[m.Name()]; g != "" && g != want && g != want+"MoqParam" {
					fmt.Fprintf(&tr, "REPRODUCED C13: unnamed parameter of %s is named %s, the rule says %s\n", m.Type(), g, want)
					v.Confirmed = true
				}
			}
		}
	}
	os.WriteFile(filepath.Join(dir, "replay.out"), []byte(tr.String()), 0o644)
	os.WriteFile(filepath.Join(dir, "replay.sh"), []byte("#!/bin/sh\ncat \"$(dirname \"$0\")/replay.out\"\n"), 0o755)
	v.Detail = short(tr.String(), 500)
	return v
}
