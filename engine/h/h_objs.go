package h

import (
	"fmt"
	"go/types"

	"moqsym/exec"
	"moqsym/smt"
)

// named looks up a named type of a loaded package.
func (r *Repo) named(pkg, name string) *types.Named {
	p := r.Pkgs[pkg]
	if p == nil {
		panic("package not loaded: " + pkg)
	}
	o := p.Pkg.Scope().Lookup(name)
	if o == nil {
		panic("type not found: " + pkg + "." + name)
	}
	return o.Type().(*types.Named)
}

func fieldIndex(t types.Type, name string) int {
	st := t.Underlying().(*types.Struct)
	for i := 0; i < st.NumFields(); i++ {
		if st.Field(i).Name() == name {
			return i
		}
	}
	panic(fmt.Sprintf("no field %s in %s", name, t))
}

// newStruct allocates a struct location of a named module type and sets the given fields.
func newStruct(ex *exec.Exec, t types.Type, fields map[string]exec.Value) *exec.StructLoc {
	l := ex.NewLoc(t).(*exec.StructLoc)
	for k, v := range fields {
		l.F[fieldIndex(t, k)].Store(ex, v)
	}
	return l
}

func getField(ex *exec.Exec, v exec.Value, t types.Type, name string) exec.Value {
	switch s := v.(type) {
	case *exec.Struct:
		return s.F[fieldIndex(t, name)]
	case *exec.StructLoc:
		return s.F[fieldIndex(t, name)].Load(ex)
	}
	ex.Inconclusive(fmt.Sprintf("getField(%s) on %T", name, v))
	return nil
}

// strMap builds a map[string]string / map[string]*T value.
func strMap(ex *exec.Exec, vt types.Type, kv ...exec.Value) *exec.MapObj {
	m := &exec.MapObj{VT: vt}
	for i := 0; i+1 < len(kv); i += 2 {
		m.Keys = append(m.Keys, kv[i])
		m.Vals = append(m.Vals, kv[i+1])
	}
	return m
}

// RegistryCfg describes the Registry object a harness starts from.
type RegistryCfg struct {
	SrcPkgName *smt.Term
	SrcPkg     *MPkg
	MoqPkgPath *smt.Term
	Aliases    []exec.Value // path, alias pairs
}

func newRegistry(ex *exec.Exec, repo *Repo, cfg RegistryCfg) *exec.StructLoc {
	rt := repo.named(pkgRegistry, "Registry")
	st := rt.Underlying().(*types.Struct)
	pkgPtr := st.Field(fieldIndex(rt, "imports")).Type().Underlying().(*types.Map).Elem()
	return newStruct(ex, rt, map[string]exec.Value{
		"srcPkgName":  cfg.SrcPkgName,
		"srcPkgTypes": ptrOrNil(cfg.SrcPkg),
		"moqPkgPath":  cfg.MoqPkgPath,
		"aliases":     strMap(ex, types.Typ[types.String], cfg.Aliases...),
		"imports":     strMap(ex, pkgPtr),
	})
}

// registryImports returns the registry's import entries as (path key, alias term, *MPkg).
type impEntry struct {
	Key   *smt.Term
	Alias *smt.Term
	Pkg   *MPkg
	Loc   exec.Loc
}

func registryImports(ex *exec.Exec, repo *Repo, reg *exec.StructLoc) []impEntry {
	rt := repo.named(pkgRegistry, "Registry")
	pt := repo.named(pkgRegistry, "Package")
	m, _ := reg.F[fieldIndex(rt, "imports")].Load(ex).(*exec.MapObj)
	var out []impEntry
	if m == nil {
		return out
	}
	for i := range m.Keys {
		pl := m.Vals[i].(*exec.StructLoc)
		e := impEntry{Key: m.Keys[i].(*smt.Term), Loc: pl}
		e.Alias = pl.F[fieldIndex(pt, "Alias")].Load(ex).(*smt.Term)
		if p, ok := pl.F[fieldIndex(pt, "pkg")].Load(ex).(*MPkg); ok {
			e.Pkg = p
		}
		out = append(out, e)
	}
	return out
}

// qualifierOf is the reference reading of Package.Qualifier for an entry.
func qualifierOf(ex *exec.Exec, e impEntry) *smt.Term {
	return ex.C.Ite(ex.C.Eq(e.Alias, ex.C.StrC("")), e.Pkg.Name, e.Alias)
}

// symIdent declares a symbolic identifier with the given length bound.
func symIdent(ex *exec.Exec, name string, bound int) *smt.Term {
	if t := concreteOf(ex, name); t != nil {
		return t
	}
	v := ex.C.Var(name, smt.String)
	ex.AssumeDomain(ex.C.InRe(v, exec.ReIdent))
	ex.AssumeNoCheck(ex.C.Le(ex.C.Len(v), ex.C.IntC(int64(bound))))
	ex.AssumeNoCheck(ex.C.Ge(ex.C.Len(v), ex.C.IntC(1)))
	return v
}

// symSeg declares a symbolic import-path segment.
func symSeg(ex *exec.Exec, name string, bound int) *smt.Term {
	v := ex.C.Var(name, smt.String)
	ex.AssumeDomain(ex.C.InRe(v, exec.ReSeg))
	ex.AssumeNoCheck(ex.C.Le(ex.C.Len(v), ex.C.IntC(int64(bound))))
	ex.AssumeNoCheck(ex.C.Ge(ex.C.Len(v), ex.C.IntC(1)))
	ex.AssumeNoCheck(ex.C.Not(ex.C.Contains(v, ex.C.StrC("/"))))
	for _, bad := range []string{".", "..", "vendor"} {
		ex.AssumeNoCheck(ex.C.Not(ex.C.Eq(v, ex.C.StrC(bad))))
	}
	return v
}

var goKeywords = []string{"break", "default", "func", "interface", "select", "case", "defer", "go", "map", "struct",
	"chan", "else", "goto", "package", "switch", "const", "fallthrough", "if", "range", "type", "continue", "for",
	"import", "return", "var"}

func notKeyword(ex *exec.Exec, v *smt.Term) *smt.Term {
	var cs []*smt.Term
	for _, k := range goKeywords {
		cs = append(cs, ex.C.Not(ex.C.Eq(v, ex.C.StrC(k))))
	}
	return ex.C.And(cs...)
}

// concreteOf: in a concretised re-run (a solver model executed with exact string semantics) the
// symbolic inputs are replaced by the model's values.
func concreteOf(ex *exec.Exec, name string) *smt.Term {
	if m, ok := ex.User["concrete"].(map[string]string); ok {
		if v, ok := m[name]; ok {
			return ex.C.StrC(v)
		}
	}
	return nil
}
