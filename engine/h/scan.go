package h

import (
	"fmt"
	"sort"

	"golang.org/x/tools/go/ssa"
	"golang.org/x/tools/go/ssa/ssautil"
)

// ModuleFuncs returns every function (incl. closures and methods) of the loaded module packages.
func (r *Repo) ModuleFuncs() []*ssa.Function {
	var out []*ssa.Function
	for fn := range ssautil.AllFunctions(r.Prog) {
		if fn.Pkg != nil && r.IsModulePkg(fn.Pkg) && fn.Blocks != nil {
			out = append(out, fn)
		}
	}
	sort.Slice(out, func(i, j int) bool { return out[i].String() < out[j].String() })
	return out
}

// Externals lists callees outside the module, per calling function.
func (r *Repo) Externals() map[string][]string {
	res := map[string][]string{}
	for _, fn := range r.ModuleFuncs() {
		seen := map[string]bool{}
		for _, b := range fn.Blocks {
			for _, ins := range b.Instrs {
				var cc *ssa.CallCommon
				switch c := ins.(type) {
				case *ssa.Call:
					cc = &c.Call
				case *ssa.Defer:
					cc = &c.Call
				case *ssa.Go:
					cc = &c.Call
					seen["<go statement>"] = true
				case *ssa.Select:
					seen["<select>"] = true
				case *ssa.Range:
					if _, ok := c.X.Type().Underlying().(interface{ Key() interface{} }); ok {
					}
				}
				if cc == nil {
					continue
				}
				if cc.IsInvoke() {
					seen["invoke "+cc.Method.FullName()] = true
					continue
				}
				if callee := cc.StaticCallee(); callee != nil {
					if callee.Pkg == nil || !r.IsModulePkg(callee.Pkg) {
						seen[callee.String()] = true
					}
				} else if _, ok := cc.Value.(*ssa.Builtin); !ok {
					seen[fmt.Sprintf("<dynamic call of %s>", cc.Value.Type())] = true
				}
			}
		}
		for k := range seen {
			res[fn.String()] = append(res[fn.String()], k)
		}
		sort.Strings(res[fn.String()])
	}
	return res
}
