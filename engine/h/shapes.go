package h

import (
	"fmt"
	"go/ast"
	"go/importer"
	"go/parser"
	"go/token"
	"go/types"
)

// SrcPkg is one package of a shape, written as Go source.
type SrcPkg struct {
	Path string
	Src  string
}

type mapImporter struct {
	pkgs map[string]*types.Package
	std  types.Importer
}

func (m *mapImporter) Import(path string) (*types.Package, error) {
	if p, ok := m.pkgs[path]; ok {
		return p, nil
	}
	if m.std != nil {
		return m.std.Import(path)
	}
	return nil, fmt.Errorf("shape importer: unknown package %q", path)
}

// TypeCheck type-checks shape packages given in dependency order (in memory, no I/O
// except for standard-library imports, which go through the default importer).
func TypeCheck(pkgs []SrcPkg) (map[string]*types.Package, map[string]*ast.File, error) {
	fset := token.NewFileSet()
	imp := &mapImporter{pkgs: map[string]*types.Package{}, std: importer.ForCompiler(fset, "source", nil)}
	files := map[string]*ast.File{}
	for _, sp := range pkgs {
		f, err := parser.ParseFile(fset, sp.Path+"/x.go", sp.Src, parser.SkipObjectResolution)
		if err != nil {
			return nil, nil, err
		}
		cfg := &types.Config{Importer: imp}
		p, err := cfg.Check(sp.Path, fset, []*ast.File{f}, nil)
		if err != nil {
			return nil, nil, fmt.Errorf("shape %s: %w", sp.Path, err)
		}
		imp.pkgs[sp.Path] = p
		files[sp.Path] = f
	}
	return imp.pkgs, files, nil
}
