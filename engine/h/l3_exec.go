package h

import (
	"fmt"
	"go/types"
	"strings"

	"moqsym/exec"
	"moqsym/smt"

	"golang.org/x/tools/go/ssa"
)

// ---- memory of a mock under symbolic execution ----

// SharedCell is a field of the mock shared between goroutines; every access is an event.
type SharedCell struct {
	Name string // e.g. "calls.Get", "GetFunc"
	V    exec.Value
	// ReadHook, when set, supplies the value a read observes (schedule mode: a fresh variable).
	ReadHook func(ex *exec.Exec, c *SharedCell) exec.Value
}

func (c *SharedCell) Load(ex *exec.Exec) exec.Value {
	v := c.V
	if c.ReadHook != nil {
		v = c.ReadHook(ex, c)
	}
	ex.Emit("Rd", c.Name, c, v)
	return v
}
func (c *SharedCell) Store(ex *exec.Exec, v exec.Value) {
	ex.Emit("Wr", c.Name, c, v)
	c.V = v
}

// LockLoc is a sync.RWMutex inside the mock (identity = the lock).
type LockLoc struct{ Name string }

func (l *LockLoc) Load(ex *exec.Exec) exec.Value     { return noLoad(ex, "RWMutex") }
func (l *LockLoc) Store(ex *exec.Exec, v exec.Value) { noLoad(ex, "RWMutex") }

// ElemLoc is the address of one element of a symbolic slice's backing array (never used by moq's
// generated code, present so that mutants indexing into the records are still interpreted).
type ElemLoc struct {
	S   *SymSlice
	Idx *smt.Term
}

func (e *ElemLoc) Load(ex *exec.Exec) exec.Value {
	ex.Emit("RdElem", "", e.S.ID, e.Idx)
	return e.S.Elem(ex, e.Idx)
}
func (e *ElemLoc) Store(ex *exec.Exec, v exec.Value) {
	ex.Emit("WrElem", "", e.S.ID, e.Idx)
	ex.Inconclusive("store through an element pointer of a record slice")
}

// SymSlice is a slice of call records with symbolic identity, length, capacity and contents.
type SymSlice struct {
	ID, Len, Cap *smt.Term
	Arr          []*smt.Term // one functional array per record field (Array Int <sort>)
	Sorts        []string
	Elt          *types.Struct
}

func fieldSort(t types.Type) string {
	if b, ok := t.Underlying().(*types.Basic); ok {
		switch {
		case b.Info()&types.IsString != 0:
			return smt.String
		case b.Info()&types.IsBoolean != 0:
			return smt.Bool
		case b.Info()&types.IsInteger != 0:
			return smt.Int
		}
	}
	return smt.Val
}

// toScalar converts a Go value of a record field to its SMT scalar.
func toScalar(ex *exec.Exec, v exec.Value, sort string) *smt.Term {
	switch x := v.(type) {
	case *smt.Term:
		return x
	case exec.Opaque:
		return x.T
	case NilableOpaque:
		return x.T
	}
	if isNil, known := exec.IsNil(v); known && isNil && sort == smt.Val {
		return ex.C.Var("nil$val", smt.Val)
	}
	ex.Inconclusive(fmt.Sprintf("record field value %T cannot be encoded as %s", v, sort))
	return nil
}

func fromScalar(t *smt.Term) exec.Value {
	if t.Sort == smt.Val {
		return exec.Opaque{T: t}
	}
	return t
}

func newSymSlice(ex *exec.Exec, prefix string, elt *types.Struct) *SymSlice {
	c := ex.C
	s := &SymSlice{ID: c.Var(prefix+"_id", smt.Int), Len: c.Var(prefix+"_len", smt.Int), Cap: c.Var(prefix+"_cap", smt.Int), Elt: elt}
	ex.AssumeNoCheck(c.And(c.Le(c.IntC(0), s.Len), c.Le(s.Len, s.Cap), c.Ge(s.ID, c.IntC(0))))
	ex.AssumeNoCheck(c.Implies(c.Eq(s.ID, c.IntC(0)), c.Eq(s.Cap, c.IntC(0)))) // id 0 is the nil slice
	for i := 0; i < elt.NumFields(); i++ {
		so := fieldSort(elt.Field(i).Type())
		s.Sorts = append(s.Sorts, so)
		s.Arr = append(s.Arr, c.Var(fmt.Sprintf("%s_f%d", prefix, i), smt.ArraySort(smt.Int, so)))
	}
	return s
}

func (s *SymSlice) Elem(ex *exec.Exec, idx *smt.Term) exec.Value {
	out := &exec.Struct{F: make([]exec.Value, len(s.Arr))}
	for i, a := range s.Arr {
		out.F[i] = fromScalar(ex.C.Select(a, idx))
	}
	return out
}

func (s *SymSlice) LenTerm(ex *exec.Exec) *smt.Term { return s.Len }

func (s *SymSlice) EqualTo(ex *exec.Exec, other exec.Value) *smt.Term {
	if isNil, known := exec.IsNil(other); known && isNil {
		return ex.C.Eq(s.ID, ex.C.IntC(0))
	}
	ex.Inconclusive("comparison of a slice with a non-nil value")
	return nil
}

func (s *SymSlice) IndexAddr(ex *exec.Exec, idx *smt.Term) exec.Loc {
	ex.Safety(ex.C.And(ex.C.Le(ex.C.IntC(0), idx), ex.C.Lt(idx, s.Len)), "record slice index in range")
	return &ElemLoc{S: s, Idx: idx}
}

func (s *SymSlice) SliceOp(ex *exec.Exec, lo, hi *smt.Term) exec.Value {
	c := ex.C
	if lo == nil {
		lo = c.IntC(0)
	}
	if hi == nil {
		hi = s.Len
	}
	ex.Safety(c.And(c.Le(c.IntC(0), lo), c.Le(lo, hi), c.Le(hi, s.Cap)), "record slice bounds")
	if !(lo.IsConst && lo.I == 0) {
		ex.Inconclusive("re-slicing a record slice from a non-zero offset")
	}
	return &SymSlice{ID: s.ID, Len: hi, Cap: s.Cap, Arr: s.Arr, Sorts: s.Sorts, Elt: s.Elt}
}

// Append implements append(s, more...) for a one-element `more`: in place if len < cap (write at
// index len of the shared backing array), otherwise into a fresh array with an arbitrary larger
// capacity — the Go spec leaves the choice to the implementation, so both are explored.
func (s *SymSlice) Append(ex *exec.Exec, more exec.Value) exec.Value {
	c := ex.C
	ms, ok := more.(exec.Slice)
	if !ok || ms.Len != 1 {
		ex.Inconclusive(fmt.Sprintf("append of %T (len != 1) to a record slice", more))
	}
	rec, ok := ms.Arr.E[ms.Off].Load(ex).(*exec.Struct)
	if !ok || len(rec.F) != len(s.Arr) {
		ex.Inconclusive("appended record does not have the element type's fields")
	}
	arr := make([]*smt.Term, len(s.Arr))
	for i := range s.Arr {
		arr[i] = c.Store(s.Arr[i], s.Len, toScalar(ex, rec.F[i], s.Sorts[i]))
	}
	if ex.Branch(c.Lt(s.Len, s.Cap)) {
		ex.Emit("WrElem", "append-in-place", s.ID, s.Len)
		return &SymSlice{ID: s.ID, Len: c.Add(s.Len, c.IntC(1)), Cap: s.Cap, Arr: arr, Sorts: s.Sorts, Elt: s.Elt}
	}
	ex.Emit("RdElems", "append-grow-copy", s.ID, s.Len)
	nid := c.Fresh("newarr_id", smt.Int)
	ncap := c.Fresh("newarr_cap", smt.Int)
	ex.AssumeNoCheck(c.Gt(ncap, s.Len))
	ex.AssumeNoCheck(c.Gt(nid, c.IntC(0)))
	ex.AssumeNoCheck(c.Not(c.Eq(nid, s.ID)))
	if snap, ok := ex.User["snapshotID"].(*smt.Term); ok {
		ex.AssumeNoCheck(c.Not(c.Eq(nid, snap))) // a fresh allocation aliases no existing array
	}
	ex.Emit("NewArr", "", nid)
	return &SymSlice{ID: nid, Len: c.Add(s.Len, c.IntC(1)), Cap: ncap, Arr: arr, Sorts: s.Sorts, Elt: s.Elt}
}

// SymFunc is the value of a function field.
type SymFunc struct {
	Field string
	Nil   *smt.Term
	Sig   *types.Signature
}

func (f *SymFunc) EqualTo(ex *exec.Exec, other exec.Value) *smt.Term {
	if isNil, known := exec.IsNil(other); known && isNil {
		return f.Nil
	}
	ex.Inconclusive("comparison of a function field with a non-nil value")
	return nil
}

// NilableOpaque is an arbitrary value of a pointer / interface / func / chan / map / slice type:
// opaque, but it may be nil (a symbolic Boolean).
type NilableOpaque struct {
	T   *smt.Term
	Nil *smt.Term
}

func (n NilableOpaque) EqualTo(ex *exec.Exec, other exec.Value) *smt.Term {
	c := ex.C
	if isNil, known := exec.IsNil(other); known && isNil {
		return n.Nil
	}
	switch o := other.(type) {
	case NilableOpaque:
		return c.And(c.Eq(n.T, o.T), c.Eq(n.Nil, o.Nil))
	case exec.Opaque:
		return c.Eq(n.T, o.T)
	}
	// some concrete reference (e.g. the mock itself): equal only if the user value happens to alias it
	return c.And(c.Not(n.Nil), c.Fresh("user_value_aliases_a_known_object", smt.Bool))
}

func nilable(t types.Type) bool {
	if _, isTP := t.(*types.TypeParam); isTP {
		return false
	}
	switch t.Underlying().(type) {
	case *types.Pointer, *types.Interface, *types.Signature, *types.Chan, *types.Map, *types.Slice:
		return true
	}
	return false
}

// symVal makes an arbitrary value of a Go type: a scalar term for basic types, else an opaque value
// (possibly nil for reference types).
func symVal(ex *exec.Exec, name string, t types.Type) exec.Value {
	so := fieldSort(t)
	if _, isTP := t.(*types.TypeParam); isTP {
		so = smt.Val
	}
	v := ex.C.Fresh(name, so)
	if so == smt.Val && nilable(t) {
		return NilableOpaque{T: v, Nil: ex.C.Fresh(name+"_isnil", smt.Bool)}
	}
	return fromScalar(v)
}

// CallDyn is the delegation to user code: one Call event, arbitrary results, or a panic.
func (f *SymFunc) CallDyn(ex *exec.Exec, c *ssa.CallCommon, args []exec.Value) exec.Value {
	if !ex.Proves(ex.C.Not(f.Nil)) {
		if ex.Branch(f.Nil) {
			panic(&exec.GoPanic{Msg: "call of nil function field " + f.Field, Runtime: true})
		}
	}
	ex.Emit("Call", f.Field, append([]exec.Value{f}, args...)...)
	if cb, ok := ex.User["callback"].(func(ex *exec.Exec, f *SymFunc)); ok {
		cb(ex, f)
	}
	if ex.Branch(ex.C.Fresh("user_func_panics", smt.Bool)) {
		pv := exec.Opaque{T: ex.C.Fresh("panic_value", smt.Val)}
		ex.Emit("UserPanic", f.Field, pv)
		panic(&exec.GoPanic{Val: pv, Msg: "panic in user function " + f.Field})
	}
	res := f.Sig.Results()
	switch res.Len() {
	case 0:
		return nil
	case 1:
		r := symVal(ex, "ret_"+f.Field, res.At(0).Type())
		ex.Emit("CallRet", f.Field, r)
		return r
	}
	tp := make(exec.Tuple, res.Len())
	for i := range tp {
		tp[i] = symVal(ex, fmt.Sprintf("ret%d_%s", i, f.Field), res.At(i).Type())
	}
	ex.Emit("CallRet", f.Field, tp...)
	return tp
}

// L3Stubs: sync.RWMutex as lock events.
func L3Stubs() map[string]exec.Stub {
	st := map[string]exec.Stub{}
	lock := func(kind string) exec.Stub {
		return func(ex *exec.Exec, c *exec.CallInfo) exec.Value {
			l, ok := c.Args[0].(*LockLoc)
			if !ok {
				ex.Inconclusive(fmt.Sprintf("%s on %T (not a lock field of the mock)", c.Name, c.Args[0]))
			}
			ex.Emit(kind, l.Name, l)
			return nil
		}
	}
	st["(*sync.RWMutex).Lock"] = lock("AcqW")
	st["(*sync.RWMutex).Unlock"] = lock("RelW")
	st["(*sync.RWMutex).RLock"] = lock("AcqR")
	st["(*sync.RWMutex).RUnlock"] = lock("RelR")
	return st
}

// MockHeap is the receiver object of a generated mock with symbolic contents.
type MockHeap struct {
	M       *L3Mock
	Loc     *exec.StructLoc
	Funcs   map[string]*SharedCell
	Calls   map[string]*SharedCell
	Locks   map[string]*LockLoc
	Elt     map[string]*types.Struct
	Pre     map[string]*SymSlice
	PreFunc map[string]*SymFunc
	Extra   []string // fields of the mock struct that are none of the above
}

// newMockHeap builds an arbitrary reachable state of a mock: every function field arbitrary
// (nil or not), every record list arbitrary (0 ≤ len ≤ cap, arbitrary contents), all locks free.
func newMockHeap(ex *exec.Exec, m *L3Mock) *MockHeap {
	st := m.Type.Underlying().(*types.Struct)
	h := &MockHeap{M: m, Funcs: map[string]*SharedCell{}, Calls: map[string]*SharedCell{}, Locks: map[string]*LockLoc{},
		Elt: map[string]*types.Struct{}, Pre: map[string]*SymSlice{}, PreFunc: map[string]*SymFunc{}}
	loc := &exec.StructLoc{F: make([]exec.Loc, st.NumFields())}
	for i := 0; i < st.NumFields(); i++ {
		f := st.Field(i)
		switch {
		case strings.HasSuffix(f.Name(), "Func") && isSig(f.Type()):
			name := strings.TrimSuffix(f.Name(), "Func")
			sf := &SymFunc{Field: f.Name(), Nil: ex.C.Var("nil_"+f.Name(), smt.Bool), Sig: f.Type().Underlying().(*types.Signature)}
			cell := &SharedCell{Name: f.Name(), V: sf}
			h.Funcs[name] = cell
			h.PreFunc[name] = sf
			loc.F[i] = cell
		case f.Name() == "calls":
			cs := f.Type().Underlying().(*types.Struct)
			cl := &exec.StructLoc{F: make([]exec.Loc, cs.NumFields())}
			for j := 0; j < cs.NumFields(); j++ {
				cf := cs.Field(j)
				elt := cf.Type().Underlying().(*types.Slice).Elem().Underlying().(*types.Struct)
				ss := newSymSlice(ex, "pre_"+cf.Name(), elt)
				cell := &SharedCell{Name: "calls." + cf.Name(), V: ss}
				h.Calls[cf.Name()] = cell
				h.Elt[cf.Name()] = elt
				h.Pre[cf.Name()] = ss
				cl.F[j] = cell
			}
			loc.F[i] = cl
		case strings.HasPrefix(f.Name(), "lock") && strings.HasSuffix(f.Type().String(), "sync.RWMutex"):
			l := &LockLoc{Name: f.Name()}
			h.Locks[strings.TrimPrefix(f.Name(), "lock")] = l
			loc.F[i] = l
		default:
			h.Extra = append(h.Extra, f.Name())
			loc.F[i] = ex.NewLoc(f.Type())
		}
	}
	h.Loc = loc
	return h
}

func isSig(t types.Type) bool {
	_, ok := t.Underlying().(*types.Signature)
	return ok
}

// sliceView reads length and element i of a record list value (symbolic or concrete).
func sliceLen(ex *exec.Exec, v exec.Value) *smt.Term {
	switch s := v.(type) {
	case *SymSlice:
		return s.Len
	case exec.Slice:
		return ex.C.IntC(int64(s.Len))
	}
	ex.Inconclusive(fmt.Sprintf("record list is %T", v))
	return nil
}

func sliceID(ex *exec.Exec, v exec.Value) *smt.Term {
	switch s := v.(type) {
	case *SymSlice:
		return s.ID
	case exec.Slice:
		if s.Arr == nil {
			return ex.C.IntC(0)
		}
		key := fmt.Sprintf("arrid:%p", s.Arr)
		if t, ok := ex.User[key].(*smt.Term); ok {
			return t
		}
		t := ex.C.Fresh("concrete_arr", smt.Int)
		ex.AssumeNoCheck(ex.C.Gt(t, ex.C.IntC(0)))
		if snap, ok := ex.User["snapshotID"].(*smt.Term); ok {
			ex.AssumeNoCheck(ex.C.Not(ex.C.Eq(t, snap))) // a fresh allocation aliases no existing array
		}
		ex.User[key] = t
		return t
	}
	ex.Inconclusive(fmt.Sprintf("record list is %T", v))
	return nil
}

func sliceElem(ex *exec.Exec, v exec.Value, idx *smt.Term) []*smt.Term {
	switch s := v.(type) {
	case *SymSlice:
		out := make([]*smt.Term, len(s.Arr))
		for i, a := range s.Arr {
			out[i] = ex.C.Select(a, idx)
		}
		return out
	case exec.Slice:
		if !idx.IsConst || int(idx.I) >= s.Len {
			ex.Inconclusive("symbolic index into a concrete record list")
		}
		rec := s.Arr.E[s.Off+int(idx.I)].Load(ex).(*exec.Struct)
		out := make([]*smt.Term, len(rec.F))
		for i, f := range rec.F {
			out[i] = toScalar(ex, f, fieldSort(types.Typ[types.Invalid]))
		}
		return out
	}
	ex.Inconclusive(fmt.Sprintf("record list is %T", v))
	return nil
}
