package h

import (
	"fmt"
	"go/ast"
	"go/parser"
	"go/token"
	"go/types"
	"os"
	"path/filepath"
	"regexp"
	"sort"
	"strconv"
	"strings"

	"moqsym/exec"
	"moqsym/smt"
)

// A varShape is one method signature written as Go source with placeholders:
//
//	$a $b $c $d  user-chosen parameter/result names      (symbolic identifiers)
//	$P $Q        package names of the two dependencies   (symbolic identifiers)
//	$L $M        names of local types of the source pkg  (symbolic identifiers)
type varShape struct {
	Name string
	Sig  string // e.g. "M($a $P.T, $b int) (r $Q.U, err error)"
}

var varShapes = []varShape{
	{"named-imported", "M($a $P.T, $b $Q.U) ($c $P.T, err error)"},
	{"named-basic-result-imported", "M($a int, $b string) (*$P.T, error)"},
	{"unnamed-mixed", "M($P.T, $Q.U, int, string) ($Q.U, error)"},
	{"uint-run", "M(uint, uint, $P.T, uint)"},
	{"user-vs-generated", "M($a int, _ string, _ []string, $b string) string"},
	{"local-types", "M($a $L, _ []$L) $L"},
	{"local-vs-imported", "M(_ $L, _ $P.T, $a int) $Q.U"},
	{"variadic-named", "M($a string, $b ...$P.T) (_ int, $c error)"},
	{"numbered", "M(_ string, _ string, $a string, _ string) (string, string)"},
}

var phRe = regexp.MustCompile(`\$[a-dPQLM]`)

// concrete stand-ins used for type-checking the shape
var phConcrete = map[string]string{"$a": "zza", "$b": "zzb", "$c": "zzc", "$d": "zzd", "$P": "zzp", "$Q": "zzq", "$L": "ZzL", "$M": "ZzM"}

func instantiate(sig string, names map[string]string) string {
	return phRe.ReplaceAllStringFunc(sig, func(ph string) string {
		if v, ok := names[ph]; ok && v != "" {
			return v
		}
		return phConcrete[ph]
	})
}

func varShapePkgs(sh varShape, names map[string]string) []SrcPkg {
	n := func(ph string) string { return instantiate(ph, names) }
	return []SrcPkg{
		{"dep.example/one/pone", "package " + n("$P") + "\ntype T struct{}\n"},
		{"dep.example/two/qtwo", "package " + n("$Q") + "\ntype U struct{}\n"},
		{"src.example/src", "package src\nimport (\n\t" + n("$P") + " \"dep.example/one/pone\"\n\t" + n("$Q") + " \"dep.example/two/qtwo\"\n)\nvar _ " + n("$P") + ".T\nvar _ " + n("$Q") + ".U\ntype " + n("$L") + " struct{}\ntype " + n("$M") + " struct{}\ntype I interface{ " + instantiate(sh.Sig, names) + " }\n"},
	}
}

// predeclared type names a generated file must still resolve
var predeclaredTypes = []string{"string", "bool", "byte", "rune", "uintptr", "int", "int8", "int16", "int32", "int64", "uint", "uint8", "uint16", "uint32", "uint64",
	"float32", "float64", "complex64", "complex128", "error", "any"}

type varsRun struct {
	sym      map[string]*smt.Term // placeholder -> symbolic name
	reg      *exec.StructLoc
	params   []tParam
	results  []tParam
	userName map[*MObj]*smt.Term
}

func setupVars(ex *exec.Exec, env *Env, pkgs map[string]*types.Package, bound int, dest string) (*varsRun, *MObj, *exec.StructLoc) {
	c := ex.C
	repo := env.Repo
	tm := NewTM(repo)
	ex.User["tm"] = tm
	vr := &varsRun{sym: map[string]*smt.Term{}, userName: map[*MObj]*smt.Term{}}
	sym := func(ph string) *smt.Term {
		if t, ok := vr.sym[ph]; ok {
			return t
		}
		t := symIdent(ex, "name_"+ph[1:], bound)
		ex.AssumeNoCheck(c.Not(c.Eq(t, c.StrC("_"))))
		ex.AssumeDomain(notKeyword(ex, t))
		vr.sym[ph] = t
		return t
	}
	byConcrete := map[string]string{}
	for ph, cn := range phConcrete {
		byConcrete[cn] = ph
	}
	cv := NewConv(ex)
	srcT := pkgs["src.example/src"]
	cv.PkgOf = func(p *types.Package) *MPkg {
		switch p.Path() {
		case "dep.example/one/pone":
			return &MPkg{Name: sym("$P"), Path: c.StrC(p.Path()), Tag: "P"}
		case "dep.example/two/qtwo":
			return &MPkg{Name: sym("$Q"), Path: c.StrC(p.Path()), Tag: "Q"}
		case "src.example/src":
			return &MPkg{Name: c.StrC("src"), Path: c.StrC(p.Path()), Tag: "src"}
		}
		return nil
	}
	cv.NameOf = func(o types.Object) *smt.Term {
		if ph, ok := byConcrete[o.Name()]; ok {
			return sym(ph)
		}
		return nil
	}
	iface := srcT.Scope().Lookup("I").Type().Underlying().(*types.Interface)
	fobj := cv.Obj(iface.Method(0))
	// Go itself guarantees: parameter names of one signature are pairwise distinct, local type
	// names are distinct, and a file's import names are distinct from each other.
	var users []*smt.Term
	for _, ph := range []string{"$a", "$b", "$c", "$d"} {
		if t, ok := vr.sym[ph]; ok {
			users = append(users, t)
		}
	}
	ex.AssumeNoCheck(c.Distinct(users...))
	if l, ok := vr.sym["$L"]; ok {
		if m, ok := vr.sym["$M"]; ok {
			ex.AssumeNoCheck(c.Not(c.Eq(l, m)))
		}
	}
	// file-scope import names are distinct from each other and from package-level declarations
	// (the shape's source file imports both dependencies by name; Go rejects it otherwise)
	var pk, loc []*smt.Term
	for _, ph := range []string{"$P", "$Q"} {
		if t, ok := vr.sym[ph]; ok {
			pk = append(pk, t)
		}
	}
	for _, ph := range []string{"$L", "$M"} {
		if t, ok := vr.sym[ph]; ok {
			loc = append(loc, t)
		}
	}
	ex.AssumeNoCheck(c.Distinct(pk...))
	for _, a := range pk {
		for _, b := range loc {
			ex.AssumeNoCheck(c.Not(c.Eq(a, b)))
		}
		ex.AssumeNoCheck(c.Not(c.Eq(a, c.StrC("I"))))
	}
	for _, b := range loc {
		ex.AssumeNoCheck(c.Not(c.Eq(b, c.StrC("I"))))
	}
	moqPath := c.StrC("src.example/src")
	if dest == "other" {
		moqPath = c.StrC("src.example/src/dst")
	}
	vr.reg = newRegistry(ex, repo, RegistryCfg{SrcPkgName: c.StrC("src"), SrcPkg: cv.Pkg(srcT), MoqPkgPath: moqPath})
	mocker := newStruct(ex, repo.named(pkgMoq, "Mocker"), map[string]exec.Value{"registry": vr.reg})
	return vr, fobj, mocker
}

// HVars: parameter/result name allocation for one method (methodData → AddVar sequences).
func HVars() *Harness {
	hh := &Harness{
		ID:  "H.vars",
		Doc: "(*Mocker).methodData from SSA on model signatures whose user-chosen names, package names and local type names are symbolic: generated identifiers valid, pairwise distinct, distinct from every import qualifier, from mock/callInfo/keywords and from the type names the method uses; user names kept verbatim when they collide with nothing; no runtime panic",
		Funcs: []string{"pkg/moq.(*Mocker).methodData", "internal/registry.(*MethodScope).AddVar", "internal/registry.(*MethodScope).resolveVarNameConflict", "internal/registry.(MethodScope).searchVar",
			"internal/registry.(MethodScope).populateImports", "internal/registry.(MethodScope).resolveImportVarConflicts", "internal/registry.varName", "internal/registry.varNameForType",
			"internal/registry.(*Registry).AddImport", "internal/registry.(Registry).searchImport", "internal/registry.(Registry).resolveImportConflict", "internal/registry.(Package).uniqueName"},
		Assumptions: []string{
			"parameter names of one signature are pairwise distinct and not keywords, local type names are distinct (guaranteed by the Go type checker for any loadable package)",
			"the two dependency packages have fixed, distinct import paths (dep.example/one/pone, dep.example/two/qtwo); their package names are symbolic but distinct from each other and from the source package's type names, because the shape's single source file imports both by name (same-named packages are the subject of H.imports)",
		},
		Outside: []string{"more than 4 parameters / 2 results per method", "names longer than the bound", "non-ASCII identifiers"},
		Confirm: varsConfirm,
	}
	hh.Instances = func(env *Env) []Instance {
		// the thorough tier keeps the identifier bound of the quick tier (bound 8 did not finish in 40 min)
		// and adds path budget and the distinct-record-field obligation (A5)
		bound := 6
		hh.Bounds = []string{fmt.Sprintf("%d signature shapes × destination {same package, other package}; identifiers ≤ %d chars", len(varShapes), bound)}
		var out []Instance
		for _, sh := range varShapes {
			for _, dest := range []string{"same", "other"} {
				sh, dest := sh, dest
				pkgs, _, err := TypeCheck(varShapePkgs(sh, nil))
				if err != nil {
					panic(fmt.Sprintf("shape %s: %v", sh.Name, err))
				}
				out = append(out, Instance{Name: "translator-validation:" + sh.Name + "," + dest, Run: func(ic *IC) *exec.Stats {
					// the engine in concrete mode against the real CLI on the same input
					fn := env.Repo.Method(pkgMoq, "Mocker", "methodData")
					concrete := map[string]string{"name_a": "alpha", "name_b": "beta", "name_c": "gamma", "name_d": "delta", "name_P": "pone", "name_Q": "qtwo", "name_L": "Lt", "name_M": "Mt"}
					var engineNames []string
					st := ic.Explore(func(ex *exec.Exec) {
						ex.User["concrete"] = concrete
						ex.User["collectNames"] = &engineNames
						runVars(ic, ex, env, fn, sh, pkgs, bound, dest)
					})
					_, tr, err := env.varsObserve(sh, concrete, dest)
					real := ""
					if i := strings.Index(tr, "identifiers of M: ["); i >= 0 {
						real = tr[i+len("identifiers of M: ["):]
						real = real[:strings.Index(real, "]")]
					}
					if err == nil && real == strings.Join(engineNames, " ") && real != "" {
						ic.mu.Lock()
						ic.Validated++
						ic.Samples = append(ic.Samples, map[string]any{"harness": "H.vars", "translator_validation": sh.Sig, "dest": dest, "engine_names": engineNames, "real_cli_names": real})
						ic.mu.Unlock()
					} else {
						ic.mu.Lock()
						ic.Inconcl = append(ic.Inconcl, fmt.Sprintf("translator validation failed for %s,%s: engine %v vs real CLI [%s] (%v)", sh.Name, dest, engineNames, real, err))
						ic.mu.Unlock()
					}
					return st
				}})
				out = append(out, Instance{Name: sh.Name + "," + dest, Run: func(ic *IC) *exec.Stats {
					ic.StrBound = bound
					ic.MaxDepth = 40
					ic.MaxPaths = 4000
					if env.Tier == "thorough" {
						ic.MaxPaths = 60000
					}
					fn := env.Repo.Method(pkgMoq, "Mocker", "methodData")
					return ic.Explore(func(ex *exec.Exec) { runVars(ic, ex, env, fn, sh, pkgs, bound, dest) })
				}})
			}
		}
		return out
	}
	return hh
}

func runVars(ic *IC, ex *exec.Exec, env *Env, fn exec.Value, sh varShape, pkgs map[string]*types.Package, bound int, dest string) {
	c := ex.C
	vr, fobj, mocker := setupVars(ex, env, pkgs, bound, dest)
	kfReserved := env.KF.Open("C12", "vars:user-name-reserved-by-template")
	kfExport := env.KF.Open("C12", "vars:names-equal-after-export")
	kfShadow := env.KF.Open("C12", "vars:user-name-shadows-type")
	kfSuffix := env.KF.Open("C12", "vars:chosen-name-looks-generated")
	var users, chosen []*smt.Term
	for _, ph := range []string{"$a", "$b", "$c", "$d"} {
		if t, ok := vr.sym[ph]; ok {
			users = append(users, t)
		}
	}
	for _, ph := range []string{"$a", "$b", "$c", "$d", "$P", "$Q", "$L", "$M"} {
		if t, ok := vr.sym[ph]; ok {
			chosen = append(chosen, t)
		}
	}
	// type names this method needs to resolve unqualified
	var typeNames []*smt.Term
	for _, n := range predeclaredTypes {
		if regexp.MustCompile(`\b` + n + `\b`).MatchString(sh.Sig) { // only the predeclared types this method mentions
			typeNames = append(typeNames, c.StrC(n))
		}
	}
	if dest == "same" {
		for _, ph := range []string{"$L", "$M"} {
			if t, ok := vr.sym[ph]; ok {
				typeNames = append(typeNames, t)
			}
		}
	}
	// open known-finding classes are excluded from the input domain (a counterexample only counts
	// outside them); each class is re-established by replaying its recorded witness
	if kfReserved != nil {
		for _, u := range users {
			ex.AssumeDomain(c.And(c.Not(c.Eq(u, c.StrC("mock"))), c.Not(c.Eq(u, c.StrC("callInfo")))))
		}
		ic.kfHit("C12", "vars:user-name-reserved-by-template")
	}
	if kfShadow != nil {
		for _, u := range users {
			for _, tn := range typeNames {
				ex.AssumeDomain(c.Not(c.Eq(u, tn)))
			}
		}
		ic.kfHit("C12", "vars:user-name-shadows-type")
	}
	if kfRetro := env.KF.Open("C12", "vars:retroactive-rename-unchecked"); kfRetro != nil {
		// class: a user-chosen parameter name that equals a package name and the de-capitalised name of a local type
		var qs []*smt.Term
		for _, qph := range []string{"$P", "$Q"} {
			if q, ok := vr.sym[qph]; ok {
				qs = append(qs, q)
			}
		}
		for _, alias := range []string{"pone", "qtwo", "onepone", "twoqtwo", "src"} { // qualifiers conflict resolution can hand out
			qs = append(qs, c.StrC(alias))
		}
		for _, u := range users {
			for _, q := range qs {
				for _, tph := range []string{"$L", "$M"} {
					t, ok := vr.sym[tph]
					if !ok {
						continue
					}
					decap := c.Concat(ex.CaseMap(c.Substr(t, c.IntC(0), c.IntC(1)), false, 1), c.Substr(t, c.IntC(1), c.Sub(c.Len(t), c.IntC(1))))
					ex.AssumeDomain(c.Not(c.And(c.Eq(u, q), c.Eq(u, decap))))
				}
			}
		}
		ic.kfHit("C12", "vars:retroactive-rename-unchecked")
	}
	if kfLocal := env.KF.Open("C12", "vars:derived-name-shadows-local-type"); kfLocal != nil && dest == "same" {
		// class: a local type whose name equals the name moq derives for a parameter of another type of the method
		for _, tph := range []string{"$L", "$M"} {
			t, ok := vr.sym[tph]
			if !ok {
				continue
			}
			for _, d := range []string{"t", "u", "ts", "us", "n", "s", "err", "v", "b", "f"} {
				ex.AssumeDomain(c.Not(c.Eq(t, c.StrC(d))))
			}
			for _, oph := range []string{"$L", "$M"} {
				if o, ok := vr.sym[oph]; ok && oph != tph {
					decap := c.Concat(ex.CaseMap(c.Substr(o, c.IntC(0), c.IntC(1)), false, 1), c.Substr(o, c.IntC(1), c.Sub(c.Len(o), c.IntC(1))))
					ex.AssumeDomain(c.Not(c.Eq(t, decap)))
				}
			}
		}
		ic.kfHit("C12", "vars:derived-name-shadows-local-type")
	}
	if kfSuffix != nil {
		for _, x := range chosen {
			last := c.ToCode(c.Substr(x, c.Sub(c.Len(x), c.IntC(1)), c.IntC(1)))
			ex.AssumeDomain(c.And(c.Not(c.SuffixOf(c.StrC("Out"), x)), c.Not(c.SuffixOf(c.StrC("MoqParam"), x)),
				c.Not(c.And(c.Ge(last, c.IntC('0')), c.Le(last, c.IntC('9'))))))
		}
		ic.kfHit("C12", "vars:chosen-name-looks-generated")
	}
	ret, pan := ex.CallCatch(fn, []exec.Value{mocker, fobj})
	if pan != nil {
		ex.Fail("C19/C12: methodData panics: " + pan.Msg + " in " + strings.Join(ex.StackAtPanic(pan), " < "))
		return
	}
	md := ret.(*exec.Struct)
	me := env.Repo.named(pkgTemplate, "MethodData")
	var params, results []tParam
	for _, pv := range ex.SliceElems(md.F[fieldIndex(me, "Params")]) {
		params = append(params, readParam(ex, env.Repo, pv))
	}
	for _, pv := range ex.SliceElems(md.F[fieldIndex(me, "Returns")]) {
		results = append(results, readParam(ex, env.Repo, pv))
	}
	all := append(append([]tParam(nil), params...), results...)
	ic.Witness(ex, func(m map[string]string) any {
		return map[string]any{"shape": sh.Sig, "dest": dest, "model": m}
	})
	var names []*smt.Term
	for _, p := range all {
		names = append(names, p.Name)
	}
	if sink, ok := ex.User["collectNames"].(*[]string); ok {
		for _, n := range names {
			s, _ := exec.ConstStr(n)
			*sink = append(*sink, s)
		}
	}
	var conds []*smt.Term
	var labels []string
	add := func(t *smt.Term, l string) { conds, labels = append(conds, t), append(labels, l) }
	// A1: valid identifiers, not keywords, not the blank identifier
	for i, n := range names {
		add(c.And(identShaped(ex, n), notKeyword(ex, n), c.Not(c.Eq(n, c.StrC("_")))), fmt.Sprintf("C12: identifier %d of the method is a valid, non-keyword identifier", i))
	}
	// A2: pairwise distinct
	add(c.Distinct(names...), "C12/C07: parameter and result identifiers are pairwise distinct (the -stub block declares the results next to the parameters)")
	// A3: distinct from every import qualifier
	var quals []*smt.Term
	for _, e := range registryImports(ex, env.Repo, vr.reg) {
		quals = append(quals, qualifierOf(ex, e))
	}
	var cs []*smt.Term
	for _, n := range names {
		for _, q := range quals {
			cs = append(cs, c.Not(c.Eq(n, q)))
		}
	}
	add(c.And(cs...), "C12/C07: no parameter or result identifier equals an import qualifier of the file (result types are written out inside the -stub block)")
	// A4: receiver and record variable
	cs = nil
	for _, n := range names {
		cs = append(cs, c.Not(c.Eq(n, c.StrC("mock"))), c.Not(c.Eq(n, c.StrC("callInfo"))))
	}
	add(c.And(cs...), "C12: no identifier captures the receiver 'mock' or the record variable 'callInfo'")
	// A6: type names the method still has to resolve
	cs = nil
	for _, n := range names {
		for _, tn := range typeNames {
			cs = append(cs, c.Not(c.Eq(n, tn)))
		}
	}
	add(c.And(cs...), "C12: no identifier shadows a type name the method's signature uses unqualified")
	// A5: distinct record fields (Exported names), decided on the reference rule proved equal to Exported by H.exported
	if ic.Env.Tier == "thorough" && os.Getenv("MOQSYM_A5") != "" {
		// opt-in only (MOQSYM_A5=1, not part of the registered tiers): with the case-insensitive class in the
		// input domain one 4-parameter instance did not finish in 400 s.
		// decided for the first two parameters of the method (all pairs of a 4-parameter method with the
		// case-insensitive known-finding class in the input domain did not finish within the tier's time)
		ps := params
		if len(ps) > 2 {
			ps = ps[:2]
		}
		var exps []*smt.Term
		for _, p := range ps {
			exps = append(exps, refExported(ex, p.Name, bound+2))
		}
		if kfExport != nil {
			// known class: two identifiers of the method differ only in letter case (a / A, acl / acL)
			for i := range ps {
				for j := i + 1; j < len(ps); j++ {
					ex.AssumeDomain(c.Not(c.Eq(ex.CaseMap(ps[i].Name, false, bound+2), ex.CaseMap(ps[j].Name, false, bound+2))))
				}
			}
			ic.kfHit("C12", "vars:names-equal-after-export")
		}
		if len(exps) > 1 {
			ex.Oblige(c.Distinct(exps...), "C12: distinct parameters yield distinct call-record field names")
		}
	}
	// A7 (C13): a user-chosen name that collides with nothing is kept verbatim
	for _, p := range all {
		if p.Vr == nil || !isPlaceholderUser(p.Vr.Tag) {
			continue
		}
		u := p.Vr.Name
		suffix := ""
		for _, r := range results {
			if r.Vr == p.Vr {
				suffix = "Out"
			}
		}
		want := c.Concat(u, c.StrC(suffix))
		var free []*smt.Term
		for _, q := range quals {
			free = append(free, c.Not(c.Eq(want, q)))
		}
		for _, e := range registryImports(ex, env.Repo, vr.reg) {
			if e.Pkg != nil {
				free = append(free, c.Not(c.Eq(want, e.Pkg.Name))) // a package name counts as a collision even if the import ends up aliased
			}
		}
		for _, o := range all {
			if o.Vr != p.Vr {
				// another variable whose final name starts with this one (x, x1, x2, xMoqParam…) counts as a collision
				free = append(free, c.Not(c.PrefixOf(want, o.Name)))
			}
		}
		add(c.Implies(c.And(free...), c.Eq(p.Name, want)), "C13: a user-chosen name that collides with nothing is kept verbatim")
	}
	ex.ObligeAll(conds, labels)
}

// identShaped decides "t is a Go identifier": structurally when t is a concatenation of pieces
// that are identifier-domain variables or alphanumeric constants, otherwise by the solver (regex).
func identShaped(ex *exec.Exec, t *smt.Term) *smt.Term {
	c := ex.C
	isIdentVar := func(p *smt.Term) bool {
		for _, d := range ex.Domain {
			if d.Op == "str.in_re" && d.Args[0] == p && strings.Contains(d.String(), exec.ReIdent) {
				return true
			}
		}
		return false
	}
	alnum := func(s string, first bool) bool {
		for i, r := range s {
			if !(r == '_' || r >= 'a' && r <= 'z' || r >= 'A' && r <= 'Z' || (r >= '0' && r <= '9' && !(first && i == 0))) {
				return false
			}
		}
		return s != "" || !first
	}
	// first letter of an identifier variable, case-mapped: loc/upc(substr(substr(x,0,1),0,1)) or substr(x,0,1)
	var firstOf func(p *smt.Term) bool
	firstOf = func(p *smt.Term) bool {
		if (p.Op == "loc" || p.Op == "upc") && len(p.Args) == 1 {
			return firstOf(p.Args[0])
		}
		if p.Op == "str.substr" && p.Args[1].IsConst && p.Args[1].I == 0 && p.Args[2].IsConst && p.Args[2].I == 1 {
			return isIdentVar(p.Args[0]) || firstOf(p.Args[0])
		}
		return false
	}
	tailOf := func(p *smt.Term) bool {
		return p.Op == "str.substr" && isIdentVar(p.Args[0]) && p.Args[1].IsConst && p.Args[1].I == 1
	}
	parts := c.Flatten(t)
	ok := len(parts) > 0
	for i, p := range parts {
		switch {
		case p.IsConst:
			ok = ok && alnum(p.S, i == 0)
		case isIdentVar(p):
		case firstOf(p): // a letter or '_' (identifier variables are non-empty)
		case tailOf(p) && i > 0:
		default:
			ok = false
		}
	}
	if ok {
		return c.True()
	}
	return c.InRe(t, exec.ReIdent)
}

func isPlaceholderUser(tag string) bool {
	return tag == "zza" || tag == "zzb" || tag == "zzc" || tag == "zzd"
}

// ---- replay: realise the model as a source package, run moq, inspect the generated method ----

func varsCase(sh varShape, m map[string]string, dest string) *CLICase {
	names := map[string]string{}
	for ph := range phConcrete {
		if v, ok := m["name_"+ph[1:]]; ok {
			names[ph] = v
		}
	}
	// defaults that keep the package loadable when a placeholder is unconstrained
	def := map[string]string{"$a": "a", "$b": "b", "$c": "c", "$d": "d", "$P": "pone", "$Q": "qtwo", "$L": "L", "$M": "M"}
	for ph, v := range def {
		if names[ph] == "" {
			names[ph] = v
		}
	}
	pk := varShapePkgs(sh, names)
	files := map[string]string{
		"go.mod":             "module src.example\n\ngo 1.21\n",
		"src/x.go":           pk[2].Src,
		"depone/one/pone.go": "",
	}
	delete(files, "depone/one/pone.go")
	// the dependencies live in their own modules (their import paths are fixed by the harness)
	files["go.work"] = "go 1.21\n\nuse (\n\t.\n\t./m1\n\t./m2\n)\n"
	files["m1/go.mod"] = "module dep.example/one\n\ngo 1.21\n"
	files["m1/pone/p.go"] = pk[0].Src
	files["m2/go.mod"] = "module dep.example/two\n\ngo 1.21\n"
	files["m2/qtwo/q.go"] = pk[1].Src
	args := []string{"-stub", "-out", "zz_mock.go"}
	if dest == "other" {
		files["src/dst/d.go"] = "package dst\n"
		args = []string{"-stub", "-pkg", "dst", "-out", "dst/zz_mock.go"}
	}
	args = append(args, ".", "I")
	return &CLICase{Files: files, Cwd: "src", Args: args, ThenBuild: true}
}

func varsConfirm(ic *IC, ob *exec.Obligation) *Violation {
	env := ic.Env
	parts := strings.Split(ic.Name, ",")
	if len(parts) != 2 {
		return nil
	}
	var sh *varShape
	for i := range varShapes {
		if varShapes[i].Name == parts[0] {
			sh = &varShapes[i]
		}
	}
	if sh == nil {
		return nil
	}
	props := labelProps(ob.Label)
	prop := env.Prop
	if len(props) > 0 {
		prop = props[0]
	}
	keys := sortedKeys(ob.Model)
	var kv []string
	for _, k := range keys {
		if strings.HasPrefix(k, "name_") {
			kv = append(kv, k+"="+ob.Model[k])
		}
	}
	key := "vars:" + ic.Name + ":" + ob.Label + ":" + strings.Join(kv, ",")
	v := &Violation{Property: prop, Harness: ic.H.ID, Instance: ic.Name, Label: ob.Label, Model: ob.Model, Key: key}
	if len(props) > 1 {
		v.Props = props[1:]
	}
	dir := env.replayDir(prop, key)
	v.Replay = dir
	cs := varsCase(*sh, ob.Model, parts[1])
	writeTree(filepath.Join(dir, "tree"), cs.Files)
	os.WriteFile(filepath.Join(dir, "replay.sh"), []byte(fmt.Sprintf("#!/bin/sh\n# realised input under tree/: run moq from tree/%s with: %s ; then inspect method M of the generated file\ncat \"$(dirname \"$0\")/replay.out\"\n", cs.Cwd, strings.Join(cs.Args, " "))), 0o755)
	findings, tr, err := env.varsObserve(*sh, ob.Model, parts[1])
	if err != nil {
		v.Detail = "replay could not run: " + err.Error()
		return v
	}
	os.WriteFile(filepath.Join(dir, "replay.out"), []byte(tr), 0o644)
	for _, f := range findings {
		for _, p := range append([]string{prop}, v.Props...) {
			if strings.HasPrefix(f, p+":") {
				v.Confirmed = true
			}
		}
	}
	if prop == "C13" {
		v.Confirmed = false // C13 needs the name itself; decided by varsNameKept below
	}
	if prop == "C07" || contains(v.Props, "C07") {
		// C07's observation: the -stub mock must compile and return zero values; the replay generates with -stub
		for _, f := range findings {
			if strings.Contains(f, "does not type-check") {
				v.Confirmed = true
			}
		}
	}
	v.Detail = short(tr, 700)
	return v
}

func readFile(p string) (string, error) {
	b, err := os.ReadFile(p)
	return string(b), err
}

var _ = sort.Strings

// varsObserve runs the real CLI on a realised name assignment and inspects the generated method at
// AST level: the observation C12 itself names (parameter identifiers, result variables, qualifiers).
func (env *Env) varsObserve(sh varShape, m map[string]string, dest string) ([]string, string, error) {
	cs := varsCase(sh, m, dest)
	res, root, err := env.RunCLI(cs)
	if root != "" {
		defer os.RemoveAll(root)
	}
	if err != nil {
		return nil, "", err
	}
	var findings []string
	out := res.Out
	if strings.Contains(out, "panic:") || strings.Contains(out, "stack overflow") || strings.Contains(out, "invalid memory address") {
		findings = append(findings, "C19: moq crashed: "+short(firstLineWith(out, "panic", "fatal error"), 160))
		findings = append(findings, "C12: moq crashed while allocating identifiers")
	}
	gen := filepath.Join(root, "src", "zz_mock.go")
	if dest == "other" {
		gen = filepath.Join(root, "src", "dst", "zz_mock.go")
	}
	b, rerr := os.ReadFile(gen)
	tr := "moq " + strings.Join(cs.Args, " ") + "\n" + short(out, 600) + "\n"
	if rerr != nil {
		return findings, tr + "no output file\n", nil
	}
	fset := token.NewFileSet()
	f, perr := parser.ParseFile(fset, gen, b, 0)
	if perr != nil {
		findings = append(findings, "C12: generated file does not parse: "+perr.Error())
		return findings, tr, nil
	}
	quals := map[string]bool{}
	for _, im := range f.Imports {
		p, _ := strconv.Unquote(im.Path.Value)
		q := p[strings.LastIndex(p, "/")+1:]
		switch p {
		case "dep.example/one/pone":
			q = nonEmpty(m["name_P"], "pone")
		case "dep.example/two/qtwo":
			q = nonEmpty(m["name_Q"], "qtwo")
		case "src.example/src":
			q = "src"
		}
		if im.Name != nil {
			q = im.Name.Name
		}
		quals[q] = true
	}
	typeNames := map[string]bool{}
	for _, n := range predeclaredTypes {
		if regexp.MustCompile(`\b` + n + `\b`).MatchString(sh.Sig) {
			typeNames[n] = true
		}
	}
	if dest == "same" {
		typeNames[nonEmpty(m["name_L"], "L")] = true
		typeNames[nonEmpty(m["name_M"], "M")] = true
	}
	for _, d := range f.Decls {
		fd, ok := d.(*ast.FuncDecl)
		if !ok || fd.Name.Name != "M" || fd.Recv == nil {
			continue
		}
		var ids []string
		for _, fl := range fd.Type.Params.List {
			for _, n := range fl.Names {
				ids = append(ids, n.Name)
			}
		}
		ast.Inspect(fd.Body, func(n ast.Node) bool {
			if gd, ok := n.(*ast.GenDecl); ok && gd.Tok == token.VAR {
				for _, sp := range gd.Specs {
					for _, nm := range sp.(*ast.ValueSpec).Names {
						ids = append(ids, nm.Name)
					}
				}
			}
			return true
		})
		seen := map[string]bool{}
		for _, id := range ids {
			if seen[id] {
				findings = append(findings, "C12: identifier "+id+" is used for two parameters/results of the method")
			}
			seen[id] = true
			if quals[id] {
				findings = append(findings, "C12: identifier "+id+" equals an import qualifier of the file")
			}
			if id == "mock" || id == "callInfo" {
				findings = append(findings, "C12: identifier "+id+" captures the receiver / record variable")
			}
			if typeNames[id] {
				findings = append(findings, "C12: identifier "+id+" shadows a type name")
			}
		}
		tr += fmt.Sprintf("identifiers of M: %v  qualifiers: %v\n", ids, sortedKeys(quals))
	}
	if i := strings.Index(out, "--- go vet ./... ---"); i >= 0 {
		vet := out[i:]
		for _, bad := range []string{"redeclared", "is not a type", "undefined:", "declared and not used", "cannot use", "not an expression", "expected"} {
			if strings.Contains(vet, bad) {
				findings = append(findings, "C12: the generated file does not type-check: "+short(firstLineWith(vet, bad), 200))
				break
			}
		}
	}
	tr += fmt.Sprintf("findings: %v\n", findings)
	return findings, tr, nil
}

func firstLineWith(s string, subs ...string) string {
	for _, l := range strings.Split(s, "\n") {
		for _, sub := range subs {
			if strings.Contains(l, sub) {
				return l
			}
		}
	}
	return ""
}

// ---- C14: map iteration order as a symbolic choice (self-composition) ----

var orderShapes = []varShape{
	{"two-packages-in-one-type", "M($a int, $b int, _ map[$P.T]$Q.U)"},
	{"two-packages-unnamed", "M(_ map[$P.T]$Q.U, _ $P.T, _ $Q.U)"},
	{"func-type-two-packages", "M($a string, f func($P.T) $Q.U) error"},
}

// HOrder: every map iteration of the registry code is a nondeterministic permutation; the same
// method is processed twice, each time under its own arbitrary iteration orders, and the results
// (identifier names, import list with aliases) must be equal.
func HOrder() *Harness {
	hh := &Harness{
		ID:          "H.order",
		Doc:         "methodData + Registry.Imports executed twice from SSA on identical symbolic inputs, every map range (Registry.searchImport, Registry.Imports, MethodScope.resolveImportVarConflicts) iterating in an independently chosen arbitrary order: identifiers, import paths and aliases must coincide",
		Funcs:       []string{"pkg/moq.(*Mocker).methodData", "internal/registry.(MethodScope).resolveImportVarConflicts", "internal/registry.(Registry).searchImport", "internal/registry.(Registry).Imports"},
		Assumptions: []string{"Go map iteration order is arbitrary: each range over a map forks over every permutation of its entries", "same input assumptions as H.vars"},
		Outside:     []string{"maps with more than 3 entries", "nondeterminism outside map iteration (the SSA scan of C14 lists go statements, select, time, rand, environment reads reachable from moq.New/Mock: none)"},
		Confirm:     orderConfirm,
	}
	hh.Instances = func(env *Env) []Instance {
		bound := 6
		hh.Bounds = []string{fmt.Sprintf("%d signature shapes × destination {same, other}; ≤ 3 map entries ⇒ ≤ 6 orders per range, two independent executions", len(orderShapes))}
		var out []Instance
		for _, sh := range orderShapes {
			for _, dest := range []string{"same", "other"} {
				sh, dest := sh, dest
				pkgs, _, err := TypeCheck(varShapePkgs(sh, nil))
				if err != nil {
					panic(fmt.Sprintf("shape %s: %v", sh.Name, err))
				}
				out = append(out, Instance{Name: sh.Name + "," + dest, Run: func(ic *IC) *exec.Stats {
					ic.StrBound = bound
					ic.MaxDepth = 40
					ic.MaxPaths = 8000
					fn := env.Repo.Method(pkgMoq, "Mocker", "methodData")
					impFn := env.Repo.Method(pkgRegistry, "Registry", "Imports")
					return ic.Explore(func(ex *exec.Exec) {
						c := ex.C
						ex.User["orderMode"] = true
						type res struct {
							names []*smt.Term
							imps  []*smt.Term
						}
						runOnce := func() (*res, bool) {
							vr, fobj, mocker := setupVars(ex, env, pkgs, bound, dest)
							if env.KF.Open("C12", "vars:chosen-name-looks-generated") != nil {
								for _, x := range vr.sym {
									last := c.ToCode(c.Substr(x, c.Sub(c.Len(x), c.IntC(1)), c.IntC(1)))
									ex.AssumeDomain(c.And(c.Not(c.SuffixOf(c.StrC("Out"), x)), c.Not(c.SuffixOf(c.StrC("MoqParam"), x)),
										c.Not(c.And(c.Ge(last, c.IntC('0')), c.Le(last, c.IntC('9'))))))
								}
							}
							ret, pan := ex.CallCatch(fn, []exec.Value{mocker, fobj})
							if pan != nil {
								return nil, false
							}
							r := &res{}
							md := ret.(*exec.Struct)
							me := env.Repo.named(pkgTemplate, "MethodData")
							for _, f := range []string{"Params", "Returns"} {
								for _, pv := range ex.SliceElems(md.F[fieldIndex(me, f)]) {
									r.names = append(r.names, readParam(ex, env.Repo, pv).Name)
								}
							}
							iv, pan := ex.CallCatch(impFn, []exec.Value{vr.reg.Load(ex)})
							if pan != nil {
								return nil, false
							}
							pt := env.Repo.named(pkgRegistry, "Package")
							for _, e := range ex.SliceElems(iv) {
								pl := e.(*exec.StructLoc)
								alias := pl.F[fieldIndex(pt, "Alias")].Load(ex).(*smt.Term)
								p, _ := pl.F[fieldIndex(pt, "pkg")].Load(ex).(*MPkg)
								r.imps = append(r.imps, c.Concat(p.Path, c.StrC(" as "), c.Ite(c.Eq(alias, c.StrC("")), p.Name, alias)))
							}
							return r, true
						}
						r1, ok1 := runOnce()
						r2, ok2 := runOnce()
						ic.Witness(ex, nil)
						if ok1 != ok2 {
							ex.Fail("C14/C19: whether name allocation panics depends on map iteration order")
							return
						}
						if !ok1 {
							return // panics are C19's business (H.vars)
						}
						if len(r1.names) != len(r2.names) || len(r1.imps) != len(r2.imps) {
							ex.Fail("C14: the number of identifiers or imports depends on map iteration order")
							return
						}
						var eqs []*smt.Term
						for i := range r1.names {
							eqs = append(eqs, c.Eq(r1.names[i], r2.names[i]))
						}
						ex.Oblige(c.And(eqs...), "C14: parameter and result identifiers do not depend on map iteration order")
						eqs = nil
						for i := range r1.imps {
							eqs = append(eqs, c.Eq(r1.imps[i], r2.imps[i]))
						}
						ex.Oblige(c.And(eqs...), "C14: the sorted import list and its aliases do not depend on map iteration order")
					})
				}})
			}
		}
		return out
	}
	return hh
}

// orderConfirm: run the real CLI repeatedly on the realised input; different outputs confirm.
func orderConfirm(ic *IC, ob *exec.Obligation) *Violation {
	env := ic.Env
	parts := strings.Split(ic.Name, ",")
	var sh *varShape
	for i := range orderShapes {
		if orderShapes[i].Name == parts[0] {
			sh = &orderShapes[i]
		}
	}
	if sh == nil || len(parts) != 2 {
		return nil
	}
	var kv []string
	for _, k := range sortedKeys(ob.Model) {
		if strings.HasPrefix(k, "name_") {
			kv = append(kv, k+"="+ob.Model[k])
		}
	}
	key := "order:" + ic.Name + ":" + strings.Join(kv, ",")
	v := &Violation{Property: "C14", Harness: ic.H.ID, Instance: ic.Name, Label: ob.Label, Model: ob.Model, Key: key}
	dir := env.replayDir("C14", key)
	v.Replay = dir
	cs := varsCase(*sh, ob.Model, parts[1])
	cs.ThenBuild = false
	// write to stdout instead of a file so that runs do not see each other's output
	var args []string
	for i := 0; i < len(cs.Args); i++ {
		if cs.Args[i] == "-out" {
			i++
			continue
		}
		args = append(args, cs.Args[i])
	}
	cs.Args = args
	writeTree(filepath.Join(dir, "tree"), cs.Files)
	os.WriteFile(filepath.Join(dir, "replay.sh"), []byte(fmt.Sprintf("#!/bin/sh\n# realised input under tree/: run 'moq %s' from tree/%s 40 times and compare the outputs byte for byte\ncat \"$(dirname \"$0\")/replay.out\"\n", strings.Join(cs.Args, " "), cs.Cwd)), 0o755)
	outs := map[string]int{}
	for i := 0; i < 40; i++ {
		res, root, err := env.RunCLI(cs)
		if root != "" {
			os.RemoveAll(root)
		}
		if err != nil {
			v.Detail = err.Error()
			return v
		}
		outs[res.Out]++
	}
	tr := fmt.Sprintf("40 runs of moq %s produced %d distinct outputs\n", strings.Join(cs.Args, " "), len(outs))
	i := 0
	for o, n := range outs {
		if i < 2 {
			tr += fmt.Sprintf("--- output seen %d times (method M only) ---\n%s\n", n, short(firstLineWith(o, ") M("), 300))
		}
		i++
	}
	os.WriteFile(filepath.Join(dir, "replay.out"), []byte(tr), 0o644)
	v.Confirmed = len(outs) > 1
	v.Detail = short(tr, 600)
	return v
}
