package h

import (
	"bytes"
	"crypto/sha1"
	"encoding/json"
	"fmt"
	"io/fs"
	"moqsym/exec"
	"os"
	osexec "os/exec"
	"path/filepath"
	"sort"
	"strings"
	"time"
)

// FaultCase is a concrete CLI run with real faults, derived from a model of H.run / H.main.
type FaultCase struct {
	N           int      `json:"n_args"`
	Out         bool     `json:"out_set"`
	Rm          bool     `json:"rm"`
	LoadFails   bool     `json:"load_fails"`
	MockFails   bool     `json:"mock_fails"`
	MkdirFails  bool     `json:"mkdir_fails"`
	RemoveCase  int      `json:"remove_outcome"` // 0 ok, 1 not-exist, 2 other error
	WriteCase   int      `json:"write_outcome"`  // 0 ok, 1 fail before open, 2 fail after truncate
	StdoutFails bool     `json:"stdout_write_fails"`
	Pkg, Fmt    string   `json:"-"`
	Flags       []string `json:"extra_flags"`
	// Stale: the -out path lies inside the source package and holds non-compiling content (C15)
	Stale bool `json:"stale_out_in_package"`
	// PriorNoop: the -out path already holds this very output in the -fmt noop layout (the code reads the old file)
	PriorNoop bool `json:"prior_content_is_noop_layout"`
}

func faultCaseFromModel(m map[string]string, n int) *FaultCase {
	fc := &FaultCase{N: n}
	fc.Out = m["flag_out"] != ""
	fc.Rm = m["flag_rm"] == "true"
	for k, v := range m {
		if v != "true" {
			if strings.HasPrefix(k, "outcome_remove") {
				fmt.Sscan(v, &fc.RemoveCase)
			}
			if strings.HasPrefix(k, "outcome_writefile") {
				fmt.Sscan(v, &fc.WriteCase)
			}
			continue
		}
		switch {
		case strings.HasPrefix(k, "fault_load"):
			fc.LoadFails = true
		case strings.HasPrefix(k, "fault_mock"):
			fc.MockFails = true
		case strings.HasPrefix(k, "fault_mkdirall"):
			fc.MkdirFails = true
		case strings.HasPrefix(k, "fault_stdout_write"):
			fc.StdoutFails = true
		}
	}
	for k := range m {
		if strings.HasPrefix(k, "havoc$os.ReadFile") || strings.HasPrefix(k, "havoc$os.Stat") || strings.HasPrefix(k, "havoc$io/ioutil.ReadFile") {
			fc.PriorNoop = true
		}
	}
	for _, b := range []string{"stub", "skip-ensure", "with-resets"} {
		if m["flag_"+b] == "true" {
			fc.Flags = append(fc.Flags, "-"+b)
		}
	}
	return fc
}

func snapshot(root string) map[string]string {
	out := map[string]string{}
	filepath.WalkDir(root, func(p string, d fs.DirEntry, err error) error {
		if err != nil {
			return nil
		}
		rel, _ := filepath.Rel(root, p)
		if d.IsDir() {
			out[rel+"/"] = "dir"
			return nil
		}
		b, err := os.ReadFile(p)
		if err != nil {
			out[rel] = "unreadable"
			return nil
		}
		out[rel] = fmt.Sprintf("%x", sha1.Sum(b))
		return nil
	})
	return out
}

// runFaultCase runs the real CLI under real faults and evaluates the observables of C17 / C18.
// It returns the list of property statements that the real run violates.
func (env *Env) runFaultCase(fc *FaultCase) (findings []string, transcript string, err error) {
	bin, err := env.MoqBin()
	if err != nil {
		return nil, "", err
	}
	root, err := os.MkdirTemp(env.scratch(), "fault-")
	if err != nil {
		return nil, "", err
	}
	defer os.RemoveAll(root)
	files := map[string]string{
		"go.mod": "module src.example\n\ngo 1.21\n",
		// I is big enough for its mock to exceed the 4 KiB of the size-limited tmpfs
		"src/x.go": "package src\n\ntype I interface {\n\tM1(a int) string\n\tM2(a int) string\n\tM3(a int) string\n\tM4(a int) string\n\tM5(a int) string\n\tM6(a int) string\n\tM7(a int) string\n\tM8(a int) string\n}\ntype J interface{ N() }\n",
	}
	if err := writeTree(root, files); err != nil {
		return nil, "", err
	}
	cwd := filepath.Join(root, "src")
	outRel := "gen/mock_test.go"
	if fc.Stale {
		outRel = "zz_generated_mock.go"
	}
	var cleanup []func()
	defer func() {
		for _, f := range cleanup {
			f()
		}
	}()
	// longer than any output of the runs below, so that a write that does not replace the file shows
	old := []byte("// old content of the -out file\npackage src\n" + strings.Repeat("// filler line of the earlier file\n", 600))
	outExists := false
	if fc.Out {
		switch {
		case fc.MkdirFails:
			// the parent of -out is a regular file
			os.WriteFile(filepath.Join(cwd, "gen"), []byte("i am a file\n"), 0o644)
		case fc.WriteCase == 1:
			// -out names a directory: open fails before anything is truncated
			os.MkdirAll(filepath.Join(cwd, outRel, "keep"), 0o755)
		case fc.WriteCase == 2:
			// a 4 KiB tmpfs: opening truncates, the write then fails with ENOSPC
			os.MkdirAll(filepath.Join(cwd, "gen"), 0o755)
			if out, err := osexec.Command("mount", "-t", "tmpfs", "-o", "size=4k", "tmpfs", filepath.Join(cwd, "gen")).CombinedOutput(); err != nil {
				return nil, "", fmt.Errorf("cannot mount a size-limited tmpfs here: %v %s", err, out)
			}
			cleanup = append(cleanup, func() { osexec.Command("umount", filepath.Join(cwd, "gen")).Run() })
			old = old[:200] // must fit beside nothing else on the 4 KiB file system
			os.WriteFile(filepath.Join(cwd, outRel), old, 0o644)
			outExists = true
		case fc.Stale:
			if !(fc.Rm && fc.RemoveCase == 1) {
				old = []byte("this is stale, garbled content that does not compile {{{\n")
				os.WriteFile(filepath.Join(cwd, outRel), old, 0o644)
				outExists = true
			}
		default:
			if !(fc.Rm && fc.RemoveCase == 1) {
				os.MkdirAll(filepath.Join(cwd, "gen"), 0o755)
				os.WriteFile(filepath.Join(cwd, outRel), old, 0o644)
				outExists = true
			}
		}
		if fc.Rm && fc.RemoveCase == 2 {
			// Remove fails with something other than not-exist: -out is a non-empty directory
			os.RemoveAll(filepath.Join(cwd, outRel))
			os.MkdirAll(filepath.Join(cwd, outRel, "keep"), 0o755)
			outExists = false
		}
	}
	var args []string
	if fc.Out {
		args = append(args, "-out", outRel)
	}
	if fc.Rm {
		args = append(args, "-rm")
	}
	args = append(args, fc.Flags...)
	if fc.N >= 1 {
		if fc.LoadFails {
			args = append(args, "./missing")
		} else {
			args = append(args, ".")
		}
	}
	names := []string{"I", "J"}
	for i := 1; i < fc.N; i++ {
		nm := names[(i-1)%2]
		if fc.MockFails && i == fc.N-1 {
			nm = "NoSuchInterface"
		}
		args = append(args, nm)
	}
	if fc.PriorNoop && fc.Out && !expectFailEarly(fc) {
		// first generation in the noop layout; the run under test then regenerates over it
		pre := osexec.Command(bin, append([]string{"-fmt", "noop"}, args...)...)
		pre.Dir = cwd
		pre.Env = cliEnv()
		pre.Run()
		outExists = true
	}
	before := snapshot(root)
	cmd := osexec.Command(bin, args...)
	cmd.Dir = cwd
	cmd.Env = cliEnv()
	var stdout, stderr bytes.Buffer
	cmd.Stderr = &stderr
	if fc.StdoutFails {
		f, err := os.OpenFile("/dev/full", os.O_WRONLY, 0)
		if err != nil {
			return nil, "", err
		}
		defer f.Close()
		cmd.Stdout = f
	} else {
		cmd.Stdout = &stdout
	}
	done := make(chan error, 1)
	if err := cmd.Start(); err != nil {
		return nil, "", err
	}
	go func() { done <- cmd.Wait() }()
	var werr error
	select {
	case werr = <-done:
	case <-time.After(2 * time.Minute):
		cmd.Process.Kill()
		<-done
		findings = append(findings, "C19: moq did not terminate within two minutes")
	}
	exit := 0
	if werr != nil {
		exit = 1
		if ee, ok := werr.(*osexec.ExitError); ok {
			exit = ee.ExitCode()
		}
	}
	after := snapshot(root)
	expectFail := fc.N < 2 || fc.LoadFails || fc.MockFails || (fc.Out && (fc.MkdirFails || fc.WriteCase != 0 || (fc.Rm && fc.RemoveCase == 2))) || (!fc.Out && fc.StdoutFails)
	var tr strings.Builder
	fmt.Fprintf(&tr, "moq %s\nexit=%d\nstdout(%d bytes): %s\nstderr: %s\n", strings.Join(args, " "), exit, stdout.Len(), short(stdout.String(), 120), short(stderr.String(), 300))
	outKey := filepath.Join("src", outRel)
	// ---- C17 ----
	if expectFail && exit == 0 {
		findings = append(findings, "C17: a step failed but moq exits 0")
	}
	if !expectFail && exit != 0 {
		findings = append(findings, "C17: every step can succeed but moq exits non-zero")
	}
	if exit != 0 {
		if strings.Contains(stdout.String(), "package ") {
			findings = append(findings, "C17: failing run wrote Go source to standard output")
		}
		if strings.TrimSpace(stderr.String()) == "" {
			findings = append(findings, "C17: failing run prints no diagnostic on standard error")
		}
		if outExists && !fc.Rm && before[outKey] != after[outKey] {
			findings = append(findings, "C17: failing run changed the existing -out file (without -rm)")
		}
		if outExists && fc.Rm {
			if _, still := after[outKey]; still && after[outKey] != before[outKey] {
				findings = append(findings, "C17: failing run with -rm left a changed -out file behind instead of removing it")
			}
		}
	} else {
		if fc.Out {
			b, err := os.ReadFile(filepath.Join(cwd, outRel))
			if err != nil || !bytes.HasPrefix(b, []byte("// Code generated by moq; DO NOT EDIT.")) || !bytes.Contains(b, []byte("package ")) {
				findings = append(findings, "C17: successful run did not leave the complete file at -out")
			}
			if stdout.Len() > 0 {
				findings = append(findings, "C17: with -out, output also went to standard output")
			}
		} else if !fc.StdoutFails && !strings.Contains(stdout.String(), "package ") {
			findings = append(findings, "C17: successful run without -out printed no Go source")
		}
	}
	// ---- C15/C16/C17: regenerating over earlier output must write what a fresh run prints ----
	if fc.Out && exit == 0 && !expectFail {
		var nargs []string
		for i := 0; i < len(args); i++ {
			if args[i] == "-out" {
				i++
				continue
			}
			if args[i] == "-rm" {
				continue
			}
			nargs = append(nargs, args[i])
		}
		ref := osexec.Command(bin, nargs...)
		ref.Dir = cwd
		ref.Env = cliEnv()
		os.Rename(filepath.Join(cwd, outRel), filepath.Join(root, "held.tmp"))
		want, rerr := ref.Output()
		os.Rename(filepath.Join(root, "held.tmp"), filepath.Join(cwd, outRel))
		got, _ := os.ReadFile(filepath.Join(cwd, outRel))
		if rerr == nil && !bytes.Equal(got, want) {
			findings = append(findings, "C17: successful run with -out did not leave the complete output: the file differs from what the same run prints")
		}
		if rerr == nil && !bytes.Equal(got, want) && fc.PriorNoop {
			findings = append(findings, "C16: the -out file of a default-formatter run over earlier noop-formatted output is not the gofmt-canonical output")
			findings = append(findings, "C15: regenerating over earlier output does not give the bytes of a fresh generation")
		}
	}
	// ---- C15: with -rm the result must not depend on what was at the -out path ----
	if fc.Stale && fc.Rm && fc.Out && outExists && !expectFail {
		if exit != 0 {
			findings = append(findings, "C15: with -rm, stale content at the -out path makes the run fail (the file is not removed before the package is loaded)")
		}
	}
	// ---- C18: nothing but the -out file (and directories leading to it) may change ----
	var changed []string
	for k, v := range after {
		if before[k] != v {
			changed = append(changed, k)
		}
	}
	for k := range before {
		if _, ok := after[k]; !ok {
			changed = append(changed, k+" (deleted)")
		}
	}
	sort.Strings(changed)
	for _, k := range changed {
		base := strings.TrimSuffix(k, " (deleted)")
		allowed := fc.Out && (base == outKey || strings.HasPrefix(outKey, strings.TrimSuffix(base, "/")+"/") || base == filepath.Dir(outKey)+"/")
		if fc.WriteCase == 2 && strings.HasPrefix(base, filepath.Dir(outKey)) {
			allowed = true
		}
		if !allowed {
			findings = append(findings, "C18: the run changed "+k+", which is not the -out file or a directory leading to it")
		}
		if strings.HasSuffix(k, "(deleted)") && base == outKey && !fc.Rm {
			findings = append(findings, "C18: the -out file was deleted without -rm")
		}
	}
	fmt.Fprintf(&tr, "changed paths: %v\nfindings: %v\n", changed, findings)
	return findings, tr.String(), nil
}

// faultConfirm replays a violated H.run / H.main obligation through the real CLI under real faults.
func faultConfirm(nOf func(ic *IC) int) func(ic *IC, ob *exec.Obligation) *Violation {
	return func(ic *IC, ob *exec.Obligation) *Violation {
		env := ic.Env
		fc := faultCaseFromModel(ob.Model, nOf(ic))
		props := labelProps(ob.Label)
		prop := env.Prop
		if len(props) > 0 {
			prop = props[0]
		}
		if prop == "C15" {
			fc.Stale = true
		}
		key := fmt.Sprintf("fault:%s:%+v", ob.Label, *fc)
		v := &Violation{Property: prop, Harness: ic.H.ID, Instance: ic.Name, Label: ob.Label, Model: ob.Model, Key: key}
		if len(props) > 1 {
			v.Props = props[1:]
		}
		dir := env.replayDir(prop, key)
		v.Replay = dir
		fj, _ := json.MarshalIndent(map[string]any{"fault_case": fc, "model": ob.Model, "label": ob.Label}, "", " ")
		os.WriteFile(filepath.Join(dir, "case.json"), fj, 0o644)
		os.WriteFile(filepath.Join(dir, "replay.sh"), []byte(fmt.Sprintf("#!/bin/sh\n# re-runs the real CLI under the recorded faults (needs the engine binary)\ncd %s && ./check %s --replay %s\n", env.VerifDir, prop, dir)), 0o755)
		// a call outside the allowed mutations (or with another target) shows on disk only when the run
		// takes the path that leaves its trace: besides the model's own schedule, the neighbouring
		// real-fault schedules are tried (the -out path is a directory / its parent is a file / Remove fails)
		variants := []*FaultCase{fc}
		if prop == "C18" || contains(v.Props, "C18") {
			for _, mod := range []func(*FaultCase){
				func(x *FaultCase) { x.WriteCase = 1 },
				func(x *FaultCase) { x.MkdirFails = true },
				func(x *FaultCase) { x.Rm, x.RemoveCase = true, 2 },
				func(x *FaultCase) { x.MockFails = true },
			} {
				cp := *fc
				cp.Out = true
				if cp.N < 2 {
					cp.N = 2
				}
				mod(&cp)
				variants = append(variants, &cp)
			}
		}
		var all strings.Builder
		for _, vc := range variants {
			findings, tr, err := env.runFaultCase(vc)
			if err != nil {
				v.Detail = "fault replay could not run: " + err.Error()
				continue
			}
			fmt.Fprintf(&all, "--- fault schedule %+v ---\n%s\n", *vc, tr)
			for _, f := range findings {
				for _, p := range append([]string{prop}, v.Props...) {
					if strings.HasPrefix(f, p+":") {
						v.Confirmed = true
					}
				}
			}
			if v.Confirmed {
				break
			}
		}
		os.WriteFile(filepath.Join(dir, "replay.out"), []byte(all.String()), 0o644)
		v.Detail = short(all.String(), 900)
		return v
	}
}

func expectFailEarly(fc *FaultCase) bool {
	return fc.N < 2 || fc.LoadFails || fc.MockFails || fc.MkdirFails || fc.WriteCase != 0
}
