package h

import (
	"fmt"
	"sort"
	"strings"
	"sync"

	"moqsym/exec"
	"moqsym/smt"
)

// ---- S.*: interleavings as solver variables ----
//
// The event list of every generated function (lock acquire/release, reads and writes of the mock's
// shared fields, the Call of user code) is extracted by symbolic execution (same executor as G.seq).
// A scenario is a set of threads, each a sequence of operations; the Call event of an operation may
// expand into a nested callback program run by the same thread. Every event gets an Int clock;
// program order, mutual exclusion of critical sections (RWMutex: readers share, writers exclude,
// not re-entrant) and distinctness constrain the clocks. The solver — not an enumeration — decides
// whether some schedule makes two conflicting accesses adjacent (S.race), reaches a state in which
// an unfinished thread can never proceed (S.deadlock), or lets a thread be stuck behind a callback
// that never returns (S.blocked).

type sEv struct {
	Kind string // AcqW RelW AcqR RelR Rd Wr Call
	Obj  string // lock or cell name
}

type sOp struct {
	Name string
	Evs  []sEv
}

// genEventLists extracts the distinct event sequences of one generated function.
func genEventLists(ic *IC, st *L3State, m *L3Mock, op l3op) [][]sEv {
	var mu sync.Mutex
	seen := map[string]bool{}
	var out [][]sEv
	ic.Repo = st.Repo
	ic.Explore(func(ex *exec.Exec) {
		c := ex.C
		ex.OpaqueNested = true
		h := newMockHeap(ex, m)
		var fname string
		switch op.kind {
		case "call", "nilcall":
			fname = op.method
		case "calls":
			fname = op.method + "Calls"
		case "reset":
			fname = "Reset" + op.method + "Calls"
		case "resetall":
			fname = "ResetCalls"
		}
		fn := m.genMethod(st.Repo.Prog, fname)
		if fn == nil {
			return
		}
		var params []exec.Value
		for i, p := range fn.Params[1:] {
			params = append(params, symVal(ex, fmt.Sprintf("arg%d_%s", i, p.Name()), p.Type()))
		}
		if op.kind == "call" {
			ex.AssumeNoCheck(c.Not(h.PreFunc[op.method].Nil))
		}
		if op.kind == "nilcall" {
			ex.AssumeNoCheck(h.PreFunc[op.method].Nil)
		}
		_, pan := ex.CallCatch(fn, append([]exec.Value{h.Loc}, params...))
		if pan != nil && op.kind != "call" {
			return // nil-function panic without -stub: no shared state touched
		}
		var evs []sEv
		for _, e := range ex.Events {
			switch e.Kind {
			case "AcqW", "RelW", "AcqR", "RelR":
				evs = append(evs, sEv{e.Kind, e.Args[0].(*LockLoc).Name})
			case "Rd", "Wr":
				cell := e.Args[0].(*SharedCell)
				if strings.HasPrefix(cell.Name, "calls.") {
					evs = append(evs, sEv{e.Kind, cell.Name})
				}
			case "WrElem":
				evs = append(evs, sEv{"Wr", "elems of array " + e.Args[0].(*smt.Term).String()})
			case "RdElems":
				evs = append(evs, sEv{"Rd", "elems of array " + e.Args[0].(*smt.Term).String()})
			case "Call":
				evs = append(evs, sEv{"Call", e.Note})
			}
		}
		key := fmt.Sprint(evs)
		mu.Lock()
		if !seen[key] {
			seen[key] = true
			out = append(out, evs)
		}
		mu.Unlock()
	})
	sort.Slice(out, func(i, j int) bool { return fmt.Sprint(out[i]) < fmt.Sprint(out[j]) })
	if len(out) > 4 {
		// keep the scenario space bounded: shortest, longest and two in between (stated in the bounds)
		sort.SliceStable(out, func(i, j int) bool { return len(out[i]) < len(out[j]) })
		out = [][]sEv{out[0], out[len(out)/3], out[2*len(out)/3], out[len(out)-1]}
	}
	return out
}

// expand splices callback programs into the Call events of an operation.
func expand(op sOp, callback []sOp, depth int) []sEv {
	var out []sEv
	for _, e := range op.Evs {
		if e.Kind != "Call" {
			out = append(out, e)
			continue
		}
		out = append(out, sEv{"CallBegin", e.Obj})
		if depth > 0 {
			for _, cb := range callback {
				out = append(out, expand(cb, callback, depth-1)...)
			}
		}
		out = append(out, sEv{"CallEnd", e.Obj})
	}
	return out
}

type section struct {
	thread, acq, rel int // event indices; rel == -1: never released on this path
	lock             string
	write            bool
}

func sectionsOf(threads [][]sEv) []section {
	var out []section
	for t, evs := range threads {
		var stack []int
		for i, e := range evs {
			switch e.Kind {
			case "AcqW", "AcqR":
				out = append(out, section{thread: t, acq: i, rel: -1, lock: e.Obj, write: e.Kind == "AcqW"})
				stack = append(stack, len(out)-1)
			case "RelW", "RelR":
				for k := len(stack) - 1; k >= 0; k-- {
					s := &out[stack[k]]
					if s.lock == e.Obj && s.rel == -1 && s.write == (e.Kind == "RelW") {
						s.rel = i
						stack = append(stack[:k], stack[k+1:]...)
						break
					}
				}
			}
		}
	}
	return out
}

type schedEnc struct {
	c     *smt.Ctx
	clock [][]*smt.Term
	cons  []*smt.Term
	secs  []section
	thr   [][]sEv
}

// encode builds PO + DIST + MUTEX for complete executions of all threads.
func encodeSchedule(c *smt.Ctx, tag string, threads [][]sEv) *schedEnc {
	enc := &schedEnc{c: c, thr: threads}
	var all []*smt.Term
	for t, evs := range threads {
		var row []*smt.Term
		for i := range evs {
			v := c.Var(fmt.Sprintf("%s_c_t%d_e%d", tag, t, i), smt.Int)
			row = append(row, v)
			all = append(all, v)
			enc.cons = append(enc.cons, c.Ge(v, c.IntC(0)))
			if i > 0 {
				enc.cons = append(enc.cons, c.Lt(row[i-1], v))
			}
		}
		enc.clock = append(enc.clock, row)
	}
	for i := range all {
		for j := i + 1; j < len(all); j++ {
			enc.cons = append(enc.cons, c.Not(c.Eq(all[i], all[j])))
		}
	}
	enc.secs = sectionsOf(threads)
	for i, a := range enc.secs {
		for j := i + 1; j < len(enc.secs); j++ {
			b := enc.secs[j]
			if a.lock != b.lock || (!a.write && !b.write) {
				continue
			}
			if a.rel < 0 || b.rel < 0 {
				continue // open sections are handled by the deadlock encoding
			}
			enc.cons = append(enc.cons, c.Or(
				c.Lt(enc.clock[a.thread][a.rel], enc.clock[b.thread][b.acq]),
				c.Lt(enc.clock[b.thread][b.rel], enc.clock[a.thread][a.acq])))
		}
	}
	return enc
}

// raceQuery: some conflicting pair of accesses of different threads can be adjacent.
func (enc *schedEnc) raceQuery() (*smt.Term, []string) {
	c := enc.c
	var alts []*smt.Term
	var descr []string
	for t1 := range enc.thr {
		for t2 := range enc.thr {
			if t1 == t2 {
				continue
			}
			for i, a := range enc.thr[t1] {
				for j, b := range enc.thr[t2] {
					if (a.Kind != "Rd" && a.Kind != "Wr") || (b.Kind != "Rd" && b.Kind != "Wr") {
						continue
					}
					if a.Obj != b.Obj || (a.Kind == "Rd" && b.Kind == "Rd") {
						continue
					}
					alts = append(alts, c.Eq(enc.clock[t2][j], c.Add(enc.clock[t1][i], c.IntC(1))))
					descr = append(descr, fmt.Sprintf("T%d:%s %s ‖ T%d:%s %s", t1, a.Kind, a.Obj, t2, b.Kind, b.Obj))
				}
			}
		}
	}
	return c.Or(alts...), descr
}

// deadlockQuery: there is a reachable cut (every thread executed a prefix) in which at least one
// thread is unfinished and every unfinished thread's next event is an acquire that cannot succeed.
// parked >= 0: thread 0 sits inside a callback that never returns (its cut is fixed right after the
// parked-th CallBegin) and only the other threads are required to be stuck (S.blocked).
func encodeDeadlock(c *smt.Ctx, tag string, threads [][]sEv, parkAt int) (*smt.Term, []*smt.Term) {
	var cons []*smt.Term
	n := len(threads)
	p := make([]*smt.Term, n)
	clock := make([][]*smt.Term, n)
	var all []*smt.Term
	for t, evs := range threads {
		p[t] = c.Var(fmt.Sprintf("%s_cut_t%d", tag, t), smt.Int)
		cons = append(cons, c.Ge(p[t], c.IntC(0)), c.Le(p[t], c.IntC(int64(len(evs)))))
		for i := range evs {
			v := c.Var(fmt.Sprintf("%s_c_t%d_e%d", tag, t, i), smt.Int)
			clock[t] = append(clock[t], v)
			all = append(all, v)
			cons = append(cons, c.Ge(v, c.IntC(0)))
			if i > 0 {
				cons = append(cons, c.Lt(clock[t][i-1], v))
			}
		}
	}
	for i := range all {
		for j := i + 1; j < len(all); j++ {
			cons = append(cons, c.Not(c.Eq(all[i], all[j])))
		}
	}
	if parkAt >= 0 {
		cons = append(cons, c.Eq(p[0], c.IntC(int64(parkAt+1))))
	}
	secs := sectionsOf(threads)
	executed := func(s section) *smt.Term { return c.Lt(c.IntC(int64(s.acq)), p[s.thread]) }
	closed := func(s section) *smt.Term {
		if s.rel < 0 {
			return c.False()
		}
		return c.Lt(c.IntC(int64(s.rel)), p[s.thread])
	}
	for i, a := range secs {
		for j := i + 1; j < len(secs); j++ {
			b := secs[j]
			if a.lock != b.lock || (!a.write && !b.write) {
				continue
			}
			var alts []*smt.Term
			if a.rel >= 0 {
				alts = append(alts, c.And(closed(a), c.Lt(clock[a.thread][a.rel], clock[b.thread][b.acq])))
			}
			if b.rel >= 0 {
				alts = append(alts, c.And(closed(b), c.Lt(clock[b.thread][b.rel], clock[a.thread][a.acq])))
			}
			cons = append(cons, c.Implies(c.And(executed(a), executed(b)), c.Or(alts...)))
		}
	}
	heldOpen := func(lock string, writeOnly bool, except int) *smt.Term {
		var alts []*smt.Term
		for k, s := range secs {
			if s.lock != lock || k == except || (writeOnly && !s.write) {
				continue
			}
			alts = append(alts, c.And(executed(s), c.Not(closed(s))))
		}
		return c.Or(alts...)
	}
	blocked := make([]*smt.Term, n)
	for t, evs := range threads {
		var alts []*smt.Term
		for i, e := range evs {
			at := c.Eq(p[t], c.IntC(int64(i)))
			switch e.Kind {
			case "AcqW":
				alts = append(alts, c.And(at, heldOpen(e.Obj, false, -1)))
			case "AcqR":
				// blocked by a writer holding the lock, or by a writer that is itself waiting for it
				var pend []*smt.Term
				for t2, evs2 := range threads {
					if t2 == t {
						continue
					}
					for i2, e2 := range evs2 {
						if e2.Kind == "AcqW" && e2.Obj == e.Obj {
							pend = append(pend, c.And(c.Eq(p[t2], c.IntC(int64(i2))), heldOpen(e.Obj, false, -1)))
						}
					}
				}
				alts = append(alts, c.And(at, c.Or(heldOpen(e.Obj, true, -1), c.Or(pend...))))
			}
		}
		blocked[t] = c.Or(alts...)
	}
	var stuck, some []*smt.Term
	for t, evs := range threads {
		unfinished := c.Lt(p[t], c.IntC(int64(len(evs))))
		if parkAt >= 0 && t == 0 {
			continue
		}
		stuck = append(stuck, c.Implies(unfinished, blocked[t]))
		some = append(some, unfinished)
	}
	goal := c.And(c.And(stuck...), c.Or(some...))
	return goal, cons
}

// ---- harness ----

type schedOps struct {
	once sync.Once
	ops  []sOp
}

var schedCache sync.Map // mock name -> *schedOps

func schedOpsOf(ic *IC, st *L3State, m *L3Mock, methods []string) []sOp {
	v, _ := schedCache.LoadOrStore(m.Name, &schedOps{})
	so := v.(*schedOps)
	so.once.Do(func() {
		for _, meth := range methods {
			kinds := []string{"call", "calls"}
			if m.Cfg.Stub {
				kinds = append(kinds, "nilcall")
			}
			if m.Cfg.Resets {
				kinds = append(kinds, "reset")
			}
			for _, k := range kinds {
				for vi, evs := range genEventLists(ic, st, m, l3op{kind: k, method: meth}) {
					so.ops = append(so.ops, sOp{Name: fmt.Sprintf("%s:%s#%d", k, meth, vi), Evs: evs})
				}
			}
		}
		if m.Cfg.Resets {
			for vi, evs := range genEventLists(ic, st, m, l3op{kind: "resetall"}) {
				so.ops = append(so.ops, sOp{Name: fmt.Sprintf("resetall#%d", vi), Evs: evs})
			}
		}
	})
	return so.ops
}

func evString(evs []sEv) string {
	var ss []string
	for _, e := range evs {
		ss = append(ss, e.Kind+"("+e.Obj+")")
	}
	return strings.Join(ss, " ")
}

// HSched: S.race, S.deadlock, S.blocked over the event lists of the generated code.
func HSched() *Harness {
	hh := &Harness{
		ID:  "S.sched",
		Doc: "interleavings as solver variables: event lists of the generated functions (extracted by symbolic execution) are composed into 2–3 thread scenarios with re-entrant callback programs; Int clocks per event under program order, distinctness and RWMutex exclusion; S.race = two conflicting accesses adjacent, S.deadlock = reachable cut where no unfinished thread can proceed, S.blocked = a thread stuck behind a callback that never returns",
		Assumptions: []string{
			"sync.RWMutex: writers exclude everyone, readers share, not re-entrant, a writer waiting for the lock blocks new readers (as documented); reachability of a cut ignores writer preference, which can only add reachable cuts",
			"sequential consistency for the lock and cell events (justified once race freedom holds on SC executions: DRF ⇒ SC in the Go memory model)",
			"function fields are not reassigned concurrently (the property's proviso)",
		},
		Outside: []string{"more than 3 threads, more than 2 operations per thread, callback nesting deeper than 2", "element-level accesses by user code reading a returned slice"},
		Confirm: schedConfirm,
	}
	hh.Instances = func(env *Env) []Instance {
		st, err := env.L3Get()
		if err != nil || st == nil || st.Repo == nil {
			return nil
		}
		thorough := env.Tier == "thorough"
		hh.Bounds = []string{"per flag combination: mocks BasicMock (methods One, NoArgs) and VariadicMock (Ifaces); S.race: every unordered pair of operation variants on 2 threads" + map[bool]string{true: " plus a third thread running any operation", false: ""}[thorough] +
			"; at most 4 path variants (event lists) per operation; S.deadlock/S.blocked: thread 1 = call with a callback program of ≤ 1 operation (thorough: ≤ 2, nesting 2), thread 2 = any one operation"}
		var out []Instance
		for _, m := range st.Mocks {
			m := m
			var methods []string
			switch m.Iface {
			case "Basic":
				methods = []string{"One", "NoArgs"}
			case "Variadic":
				methods = []string{"Ifaces"}
			default:
				continue
			}
			out = append(out, Instance{Name: m.Name + "/sched", Run: func(ic *IC) *exec.Stats {
				ops := schedOpsOf(ic, st, m, methods)
				ic.Repo = st.Repo
				return ic.Explore(func(ex *exec.Exec) { runSched(ic, ex, m, ops, thorough) })
			}})
		}
		return out
	}
	return hh
}

func runSched(ic *IC, ex *exec.Exec, m *L3Mock, ops []sOp, thorough bool) {
	c := ex.C
	ic.Witness(ex, func(map[string]string) any {
		var ss []string
		for _, o := range ops {
			ss = append(ss, o.Name+": "+evString(o.Evs))
		}
		return map[string]any{"mock": m.Name, "operation_event_lists": ss}
	})
	check := func(cons []*smt.Term, goal *smt.Term, label string) {
		// goal must be unsatisfiable together with the schedule constraints
		saved := ex.PC
		for _, k := range cons {
			ex.PC = append(ex.PC, k)
		}
		ex.Oblige(c.Not(goal), label)
		ex.PC = saved
	}
	plain := func(o sOp) []sEv { return expand(o, nil, 0) }
	n := 0
	// ---- S.race ----
	for i := range ops {
		for j := i; j < len(ops); j++ {
			n++
			tag := "s"
			thr := [][]sEv{plain(ops[i]), plain(ops[j])}
			enc := encodeSchedule(c, tag, thr)
			goal, _ := enc.raceQuery()
			check(enc.cons, goal, fmt.Sprintf("C05: no schedule makes conflicting accesses of %s ‖ %s adjacent (data race)", ops[i].Name, ops[j].Name))
			if thorough {
				for k := range ops {
					if !strings.HasSuffix(ops[k].Name, "#0") {
						continue // third thread: one path variant per operation
					}
					n++
					enc := encodeSchedule(c, "s", [][]sEv{plain(ops[i]), plain(ops[j]), plain(ops[k])})
					goal, _ := enc.raceQuery()
					check(enc.cons, goal, fmt.Sprintf("C05: no schedule makes conflicting accesses of %s ‖ %s ‖ %s adjacent", ops[i].Name, ops[j].Name, ops[k].Name))
				}
			}
		}
	}
	// ---- S.deadlock / S.blocked ----
	var calls []sOp
	for _, o := range ops {
		if strings.HasPrefix(o.Name, "call:") {
			calls = append(calls, o)
		}
	}
	var cbPrograms [][]sOp
	cbPrograms = append(cbPrograms, nil)
	for _, o := range ops {
		cbPrograms = append(cbPrograms, []sOp{o})
	}
	if thorough {
		for _, a := range ops {
			for _, b := range ops {
				if strings.HasSuffix(a.Name, "#0") && strings.HasSuffix(b.Name, "#0") {
					cbPrograms = append(cbPrograms, []sOp{a, b}) // two-operation callbacks: one path variant per operation
				}
			}
		}
	}
	depth := 1
	if thorough {
		depth = 2
	}
	for _, call := range calls {
		for _, cb := range cbPrograms {
			t1 := expand(call, cb, depth)
			var cbName []string
			for _, o := range cb {
				cbName = append(cbName, o.Name)
			}
			others := append([]sOp{{Name: "(none)"}}, ops...)
			for _, o2 := range others {
				n++
				thr := [][]sEv{t1}
				if o2.Name != "(none)" {
					thr = append(thr, plain(o2))
				}
				goal, cons := encodeDeadlock(c, "s", thr, -1)
				check(cons, goal, fmt.Sprintf("C06: no deadlock: %s whose callback runs %v, concurrently with %s", call.Name, cbName, o2.Name))
				if o2.Name == "(none)" {
					continue
				}
				// S.blocked: thread 1 parked inside its (first) callback forever
				for idx, e := range t1 {
					if e.Kind == "CallBegin" {
						n++
						goal, cons := encodeDeadlock(c, "s", thr, idx)
						check(cons, goal, fmt.Sprintf("C06: a call of %s blocked inside its callback does not block %s", call.Name, o2.Name))
						break
					}
				}
			}
		}
	}
}

// schedConfirm replays a schedule finding with the reflection scenarios (race detector / watchdog).
func schedConfirm(ic *IC, ob *exec.Obligation) *Violation {
	env := ic.Env
	st, _ := env.L3Get()
	if st == nil {
		return nil
	}
	mockName := strings.TrimSuffix(ic.Name, "/sched")
	var m *L3Mock
	for _, x := range st.Mocks {
		if x.Name == mockName {
			m = x
		}
	}
	if m == nil {
		return nil
	}
	props := labelProps(ob.Label)
	prop := "C05"
	if len(props) > 0 {
		prop = props[0]
	}
	// the method named in the label
	method := ""
	for _, meth := range m.Methods {
		if strings.Contains(ob.Label, ":"+meth+"#") {
			method = meth
			break
		}
	}
	if method == "" && len(m.Methods) > 0 {
		method = m.Methods[0]
	}
	key := "sched:" + m.Name + ":" + method + ":" + prop
	v := &Violation{Property: prop, Harness: ic.H.ID, Instance: ic.Name, Label: ob.Label, Model: ob.Model, Key: key}
	out, dir := l3RunReplay(env, st, m, method, prop, key)
	v.Replay = dir
	v.Detail = short(out, 500)
	v.Confirmed = strings.Contains(out, "REPRODUCED "+prop+":") || (prop == "C05" && strings.Contains(out, "WARNING: DATA RACE"))
	return v
}
