package h

import (
	"fmt"
	"go/types"
	"os"
	"strings"

	"moqsym/exec"
	"moqsym/smt"
)

// FileObj stands for *os.File values (os.Stdout, os.Stderr).
type FileObj struct {
	Name   string
	Path   exec.Value // for files opened by the code under analysis
	Opened bool
}

func (f *FileObj) Load(ex *exec.Exec) exec.Value     { return noLoad(ex, "os.File") }
func (f *FileObj) Store(ex *exec.Exec, v exec.Value) { noLoad(ex, "os.File") }

// bufLoc recognises the bytes.Buffer the CLI buffers into.
type exitPanic struct{ Code *smt.Term }

// RunEnvStubs: contracts of everything main.run / main.main call outside the module,
// plus contract stubs for moq.New and (*Mocker).Mock (the latter is what H.mock establishes).
func RunEnvStubs(repo *Repo) map[string]exec.Stub {
	st := map[string]exec.Stub{}
	fault := func(ex *exec.Exec, name string) bool {
		return ex.Branch(ex.C.Fresh("fault_"+name, smt.Bool))
	}
	st["os.Remove"] = func(ex *exec.Exec, c *exec.CallInfo) exec.Value {
		switch chooseVar(ex, "outcome_remove", 3) {
		case 0:
			ex.Emit("Remove", "ok", c.Args[0])
			return exec.Iface{}
		case 1:
			ex.Emit("Remove", "notexist", c.Args[0])
			return ex.NewError(ex.C.StrC("remove: no such file or directory"), "notexist")
		}
		ex.Emit("Remove", "fail", c.Args[0])
		return ex.NewError(ex.C.StrC("remove: permission denied"), "perm")
	}
	// a mutating call the property does not allow: recorded so that the whitelist check sees it
	otherMutation := func(kind string) exec.Stub {
		return func(ex *exec.Exec, c *exec.CallInfo) exec.Value {
			var arg exec.Value
			if len(c.Args) > 0 {
				arg = c.Args[0]
			}
			ex.Emit("OtherMutation", kind, arg)
			if len(c.Args) > 0 {
				if _, isStr := c.Args[0].(*smt.Term); isStr && c.Sig != nil && c.Sig.Results().Len() == 1 {
					return exec.Iface{}
				}
			}
			return exec.Iface{}
		}
	}
	for _, fn := range []string{"os.RemoveAll", "os.Rename", "os.Mkdir", "os.Chmod", "os.Truncate", "os.Symlink", "os.Link", "os.Chdir"} {
		st[fn] = otherMutation(fn)
	}
	st["errors.Is"] = func(ex *exec.Exec, c *exec.CallInfo) exec.Value {
		a, b := c.Args[0].(exec.Iface), c.Args[1].(exec.Iface)
		ae, ok1 := a.V.(*exec.ErrObj)
		be, ok2 := b.V.(*exec.ErrObj)
		if !ok1 || !ok2 {
			return ex.C.False()
		}
		return ex.C.BoolC(ae.Kind == be.Kind)
	}
	st[pkgMoq+".New"] = func(ex *exec.Exec, c *exec.CallInfo) exec.Value {
		ex.Emit("New", "", c.Args[0])
		if fault(ex, "load") {
			return exec.Tuple{exec.NilV{}, ex.NewError(ex.C.StrC("couldn't load source package"), "load")}
		}
		m := ex.NewLoc(repo.named(pkgMoq, "Mocker"))
		return exec.Tuple{m, exec.Iface{}}
	}
	st["(*"+pkgMoq+".Mocker).Mock"] = func(ex *exec.Exec, c *exec.CallInfo) exec.Value {
		w := c.Args[1].(exec.Iface)
		ex.Emit("Mock", "", w, c.Args[2])
		// contract (H.mock): either an error and nothing written, or the complete output written once
		if fault(ex, "mock") {
			return ex.NewError(ex.C.StrC("mock failed"), "mock")
		}
		out := exec.Bytes{S: ex.C.Fresh("mock_output", smt.String)}
		ex.User["mockOutput"] = out.S
		switch d := w.V.(type) {
		case *FileObj:
			ex.Emit("StdWrite", d.Name, out)
			if fault(ex, "stdout_write") {
				return ex.NewError(ex.C.StrC("write failed"), "write")
			}
		case exec.Loc: // *bytes.Buffer
			ex.User[fmt.Sprintf("buf:%p", d)] = out
		default:
			ex.Inconclusive(fmt.Sprintf("Mock called with writer %T", w.V))
		}
		return exec.Iface{}
	}
	st["path/filepath.Dir"] = func(ex *exec.Exec, c *exec.CallInfo) exec.Value {
		return ex.C.UF("dir", []string{smt.String}, smt.String, c.Args[0].(*smt.Term))
	}
	st["os.MkdirAll"] = func(ex *exec.Exec, c *exec.CallInfo) exec.Value {
		if fault(ex, "mkdirall") {
			ex.Emit("MkdirAll", "fail", c.Args[0])
			return ex.NewError(ex.C.StrC("mkdir failed"), "mkdir")
		}
		ex.Emit("MkdirAll", "ok", c.Args[0])
		return exec.Iface{}
	}
	st["os.WriteFile"] = func(ex *exec.Exec, c *exec.CallInfo) exec.Value {
		// os.WriteFile: "a failure mid-operation can leave the file in a partially written state"
		switch chooseVar(ex, "outcome_writefile", 3) {
		case 0:
			ex.Emit("WriteFile", "ok", c.Args[0], c.Args[1])
			return exec.Iface{}
		case 1:
			ex.Emit("WriteFile", "fail-before-open", c.Args[0], c.Args[1])
			return ex.NewError(ex.C.StrC("open failed"), "open")
		}
		ex.Emit("WriteFile", "fail-after-truncate", c.Args[0], c.Args[1])
		return ex.NewError(ex.C.StrC("write failed: no space left on device"), "write")
	}
	// explicit open/write/close instead of os.WriteFile: the same three outcomes, plus the open flags,
	// which decide what survives of a file that was at the path before
	openFile := func(ex *exec.Exec, name exec.Value, flags int64) exec.Value {
		var defects []string
		if flags&int64(os.O_WRONLY|os.O_RDWR) == 0 {
			defects = append(defects, "read-only")
		}
		if flags&int64(os.O_CREATE) == 0 {
			defects = append(defects, "without O_CREATE")
		}
		if flags&int64(os.O_TRUNC) == 0 {
			defects = append(defects, "without O_TRUNC")
		}
		if flags&int64(os.O_APPEND) != 0 {
			defects = append(defects, "with O_APPEND")
		}
		if flags&int64(os.O_EXCL) != 0 {
			defects = append(defects, "with O_EXCL")
		}
		if chooseVar(ex, "outcome_open", 2) == 1 {
			ex.Emit("WriteFile", "fail-before-open", name, nil)
			return exec.Tuple{exec.NilV{}, ex.NewError(ex.C.StrC("open failed"), "open")}
		}
		ex.Emit("Open", strings.Join(defects, ", "), name)
		return exec.Tuple{&FileObj{Name: "opened", Path: name, Opened: true}, exec.Iface{}}
	}
	st["os.OpenFile"] = func(ex *exec.Exec, c *exec.CallInfo) exec.Value {
		fl, ok := c.Args[1].(*smt.Term)
		if !ok || !fl.IsConst {
			ex.Inconclusive("os.OpenFile with non-constant flags")
			return exec.Tuple{exec.NilV{}, ex.NewError(ex.C.StrC("open failed"), "open")}
		}
		return openFile(ex, c.Args[0], fl.I)
	}
	st["os.Create"] = func(ex *exec.Exec, c *exec.CallInfo) exec.Value {
		return openFile(ex, c.Args[0], int64(os.O_RDWR|os.O_CREATE|os.O_TRUNC))
	}
	st["(*os.File).Close"] = func(ex *exec.Exec, c *exec.CallInfo) exec.Value { return exec.Iface{} }
	st["(*os.File).Sync"] = st["(*os.File).Close"]
	// ---- main.main ----
	flagVar := func(sort string) exec.Stub {
		return func(ex *exec.Exec, c *exec.CallInfo) exec.Value {
			name := constStr(ex, c.Args[1])
			v := ex.C.Var("flag_"+name, sort)
			c.Args[0].(exec.Loc).Store(ex, v)
			return nil
		}
	}
	st["flag.StringVar"] = flagVar(smt.String)
	st["flag.BoolVar"] = flagVar(smt.Bool)
	st["flag.Bool"] = func(ex *exec.Exec, c *exec.CallInfo) exec.Value {
		return &exec.Cell{V: ex.C.Var("flag_"+constStr(ex, c.Args[0]), smt.Bool)}
	}
	st["flag.Parse"] = func(ex *exec.Exec, c *exec.CallInfo) exec.Value { return nil }
	st["flag.PrintDefaults"] = func(ex *exec.Exec, c *exec.CallInfo) exec.Value {
		ex.Emit("StdWrite", "usage", nil)
		return nil
	}
	st["flag.Args"] = func(ex *exec.Exec, c *exec.CallInfo) exec.Value {
		n, _ := ex.User["nargs"].(int)
		var ts []*smt.Term
		for i := 0; i < n; i++ {
			ts = append(ts, ex.C.Var(fmt.Sprintf("cliarg%d", i), smt.String))
		}
		return ex.StrSliceOf(ts...)
	}
	st["fmt.Println"] = func(ex *exec.Exec, c *exec.CallInfo) exec.Value {
		ex.Emit("StdWrite", "stdout-text", nil)
		return exec.Tuple{ex.C.IntC(0), exec.Iface{}}
	}
	st["fmt.Printf"] = st["fmt.Println"]
	// printing a value that carries the generated source to stdout is a stdout write that can fail
	st["fmt.Print"] = func(ex *exec.Exec, c *exec.CallInfo) exec.Value {
		carries := false
		for _, a := range ex.SliceElems(c.Args[0]) {
			if iv, ok := a.(exec.Iface); ok {
				if t, ok := iv.V.(*smt.Term); ok && t == ex.User["mockOutput"] {
					carries = true
				}
				if b, ok := iv.V.(exec.Bytes); ok && b.S == ex.User["mockOutput"] {
					carries = true
				}
			}
		}
		if !carries {
			ex.Emit("StdWrite", "stdout-text", nil)
			return exec.Tuple{ex.C.IntC(0), exec.Iface{}}
		}
		ex.Emit("StdWrite", "stdout", exec.Bytes{S: ex.User["mockOutput"].(*smt.Term)})
		if fault(ex, "stdout_write") {
			return exec.Tuple{ex.C.IntC(0), ex.NewError(ex.C.StrC("write failed"), "write")}
		}
		return exec.Tuple{ex.C.IntC(0), exec.Iface{}}
	}
	st["(*bytes.Buffer).String"] = func(ex *exec.Exec, c *exec.CallInfo) exec.Value {
		if b, ok := bufContent(ex, c.Args[0]).(exec.Bytes); ok {
			return b.S
		}
		return ex.C.StrC("")
	}
	st["(*os.File).Write"] = func(ex *exec.Exec, c *exec.CallInfo) exec.Value {
		name := "?"
		if f, ok := c.Args[0].(*FileObj); ok {
			name = f.Name
			if f.Opened {
				if chooseVar(ex, "outcome_filewrite", 2) == 1 {
					ex.Emit("WriteFile", "fail-after-truncate", f.Path, c.Args[1])
					return exec.Tuple{ex.C.IntC(0), ex.NewError(ex.C.StrC("write failed: no space left on device"), "write")}
				}
				ex.Emit("WriteFile", "ok", f.Path, c.Args[1])
				return exec.Tuple{ex.C.IntC(0), exec.Iface{}}
			}
		}
		ex.Emit("StdWrite", name, c.Args[1])
		if fault(ex, "stdout_write") {
			return exec.Tuple{ex.C.IntC(0), ex.NewError(ex.C.StrC("write failed"), "write")}
		}
		return exec.Tuple{ex.C.IntC(0), exec.Iface{}}
	}
	st["(*os.File).WriteString"] = st["(*os.File).Write"]
	st["fmt.Fprintln"] = func(ex *exec.Exec, c *exec.CallInfo) exec.Value {
		w := c.Args[0].(exec.Iface)
		name := "?"
		if f, ok := w.V.(*FileObj); ok {
			name = f.Name
		}
		ex.Emit("Fprintln", name, ex.SliceElems(c.Args[1])...)
		return exec.Tuple{ex.C.IntC(0), exec.Iface{}}
	}
	st["os.Exit"] = func(ex *exec.Exec, c *exec.CallInfo) exec.Value {
		ex.Emit("Exit", "", c.Args[0])
		panic(&exec.GoPanic{Msg: "os.Exit", Val: exitPanic{Code: c.Args[0].(*smt.Term)}})
	}
	return st
}

// chooseVar is a nondeterministic choice that is visible in models as an Int variable.
func chooseVar(ex *exec.Exec, name string, n int) int {
	v := ex.C.Fresh(name, smt.Int)
	guards := make([]*smt.Term, n)
	for i := range guards {
		guards[i] = ex.C.Eq(v, ex.C.IntC(int64(i)))
	}
	return ex.Choose(guards)
}

func instArgs(ic *IC) int {
	n := 0
	fmt.Sscanf(ic.Name, "args=%d", &n)
	return n
}

func constStr(ex *exec.Exec, v exec.Value) string {
	s, ok := exec.ConstStr(v)
	if !ok {
		ex.Inconclusive("expected a constant string")
	}
	return s
}

// RunGlobals: values of the std globals main.go reads.
func RunGlobals() map[string]func(ex *exec.Exec) exec.Value {
	return map[string]func(ex *exec.Exec) exec.Value{
		"os.Stdout":         func(ex *exec.Exec) exec.Value { return &FileObj{Name: "stdout"} },
		"os.Stderr":         func(ex *exec.Exec) exec.Value { return &FileObj{Name: "stderr"} },
		"os.ErrNotExist":    func(ex *exec.Exec) exec.Value { return ex.NewError(ex.C.StrC("file does not exist"), "notexist") },
		"flag.Usage":        func(ex *exec.Exec) exec.Value { return exec.NilV{} },
		"go/types.Universe": func(ex *exec.Exec) exec.Value { return UniverseScope(ex) },
	}
}

type runFlags struct {
	out, pkg, fmtr             *smt.Term
	stub, skip, resets, remove *smt.Term
	args                       []*smt.Term
	val                        *exec.Struct
}

func symFlags(ex *exec.Exec, repo *Repo, n int) *runFlags {
	c := ex.C
	f := &runFlags{out: c.Var("flag_out", smt.String), pkg: c.Var("flag_pkg", smt.String), fmtr: c.Var("flag_fmt", smt.String),
		stub: c.Var("flag_stub", smt.Bool), skip: c.Var("flag_skip-ensure", smt.Bool), resets: c.Var("flag_with-resets", smt.Bool), remove: c.Var("flag_rm", smt.Bool)}
	for i := 0; i < n; i++ {
		f.args = append(f.args, c.Var(fmt.Sprintf("cliarg%d", i), smt.String))
	}
	ft := repo.named(pkgMain, "userFlags")
	v := ex.Zero(ft).(*exec.Struct)
	set := func(name string, val exec.Value) { v.F[fieldIndex(ft, name)] = val }
	set("outFile", f.out)
	set("pkgName", f.pkg)
	set("formatter", f.fmtr)
	set("stubImpl", f.stub)
	set("skipEnsure", f.skip)
	set("withResets", f.resets)
	set("remove", f.remove)
	set("args", ex.StrSliceOf(f.args...))
	f.val = v
	return f
}

// checkRunTrace is the oracle of C17/C18/C15/C08 over the event trace of one path of run().
func checkRunTrace(ic *IC, ex *exec.Exec, repo *Repo, f *runFlags, failed bool, errv exec.Value) {
	c := ex.C
	var removes, news, mocks, mkdirs, wfiles, stdw []exec.Event
	order := ""
	for _, e := range ex.Events {
		switch e.Kind {
		case "Remove":
			removes = append(removes, e)
			order += "R"
		case "New":
			news = append(news, e)
			order += "N"
		case "Mock":
			mocks = append(mocks, e)
			order += "M"
		case "MkdirAll":
			mkdirs = append(mkdirs, e)
			order += "D"
		case "WriteFile":
			wfiles = append(wfiles, e)
			order += "W"
		case "StdWrite":
			if e.Note == "stdout" {
				stdw = append(stdw, e)
				order += "S"
			}
		}
	}
	faults := faultsTaken(ex)
	stepFailed := len(faults) > 0
	for _, e := range ex.Events {
		if (e.Kind == "Remove" && e.Note == "fail") || (e.Kind == "WriteFile" && e.Note != "ok") {
			stepFailed = true
		}
	}
	hasOut := c.Not(c.Eq(f.out, c.StrC("")))
	n := len(f.args)

	// ---- C19/C17: argument validation ----
	if n < 2 {
		if !failed {
			ex.Fail("C19: run succeeds with fewer than two arguments")
		} else {
			ex.Oblige(c.Eq(errMsg(ex, errv), c.StrC("not enough arguments")), "C19: too few arguments yield their diagnostic")
		}
		if len(ex.Events) > 0 {
			ex.Fail("C18: run touches the environment before validating its arguments: " + order)
		} else {
			ex.Pass("C18: nothing happens before argument validation")
		}
		return
	}
	// ---- C17 (a),(d): failure ⇔ error ----
	if stepFailed && !failed {
		ex.Fail(fmt.Sprintf("C17: a step failed (%v, %s) but run returns nil", faults, order))
	} else if !stepFailed && failed {
		ex.Fail("C17: run returns an error although every step succeeded: " + order)
	} else {
		ex.Pass("C17: run returns an error iff some step failed")
	}
	// ---- C18: whitelist of mutating events with the right targets ----
	for _, e := range ex.Events {
		if e.Kind == "OtherMutation" {
			ex.Fail("C18/C15: run() calls " + e.Note + ", a file-system mutation outside {os.Remove(out), os.MkdirAll(dir(out)), os.WriteFile(out)}")
		}
	}
	for _, e := range ex.Events {
		if e.Kind == "Open" {
			ex.Oblige(c.Eq(e.Args[0].(*smt.Term), f.out), "C18/C17: the file opened for writing is exactly the -out path")
			if e.Note != "" {
				ex.Fail("C17: the -out file is opened " + e.Note + ": a successful run does not leave exactly the complete output whatever was at the path before")
			}
		}
	}
	for _, e := range removes {
		ex.Oblige(c.Eq(e.Args[0].(*smt.Term), f.out), "C18: os.Remove targets exactly the -out path")
		ex.Oblige(c.And(f.remove, hasOut), "C18/C15: os.Remove only with -rm and -out")
	}
	for _, e := range mkdirs {
		ex.Oblige(c.Eq(e.Args[0].(*smt.Term), c.UF("dir", []string{smt.String}, smt.String, f.out)), "C18/C17: MkdirAll creates exactly the parent directory of -out")
		ex.Oblige(hasOut, "C18: no directory is created without -out")
	}
	for _, e := range wfiles {
		ex.Oblige(c.Eq(e.Args[0].(*smt.Term), f.out), "C18/C17: WriteFile targets exactly the -out path")
		ex.Oblige(hasOut, "C18: no file is written without -out")
	}
	// ---- C15: -rm happens first ----
	if len(removes) > 1 {
		ex.Fail("C15: more than one Remove")
	}
	if len(removes) == 1 && order[0] != 'R' {
		ex.Fail("C15: the -out file is removed after the package was loaded: " + order)
	} else if len(removes) == 1 {
		ex.Pass("C15: Remove precedes package loading")
	}
	if len(removes) == 0 {
		// reached New (or beyond) without Remove ⇒ -rm was off or -out empty
		ex.Oblige(c.Not(c.And(f.remove, hasOut)), "C15: with -rm and -out the file is removed before anything else")
	}
	for i, e := range ex.Events {
		if e.Kind == "Remove" && e.Note == "fail" && i != len(ex.Events)-1 {
			ex.Fail("C15/C17: a Remove error other than not-exist does not abort the run: " + order)
		}
	}
	// ---- C17 (b): single WriteFile, after New, Mock and MkdirAll succeeded, with the bytes Mock produced ----
	if len(wfiles) > 1 || len(mkdirs) > 1 || len(news) > 1 || len(mocks) > 1 {
		ex.Fail("C17: a step is repeated: " + order)
	}
	if len(wfiles) == 1 {
		core := strings.ReplaceAll(order, "R", "")
		if core != "NMDW" {
			ex.Fail("C17: WriteFile is not preceded by New, Mock, MkdirAll in that order: " + order)
		} else {
			ex.Pass("C17: WriteFile is the last step after New, Mock, MkdirAll")
		}
		if mkdirs[0].Note != "ok" {
			ex.Fail("C17: WriteFile after a failed MkdirAll")
		}
		mo, _ := ex.User["mockOutput"].(*smt.Term)
		data, ok := wfiles[0].Args[1].(exec.Bytes)
		if !ok || mo == nil || data.S != mo {
			ex.Fail("C17: the file content is not the bytes Mock produced")
		} else {
			ex.Pass("C17: the file content is exactly what Mock wrote into the buffer")
		}
	}
	// ---- C17: stdout carries Go source only when -out is unset ----
	for range stdw {
		ex.Oblige(c.Eq(f.out, c.StrC("")), "C17: with -out nothing is written to standard output")
	}
	if len(mocks) == 1 {
		w := mocks[0].Args[0].(exec.Iface)
		_, isStd := w.V.(*FileObj)
		ex.Oblige(c.Eq(c.BoolC(isStd), c.Eq(f.out, c.StrC(""))), "C17: Mock writes to stdout iff -out is unset, else into the in-memory buffer")
		if al := ex.SliceElems(mocks[0].Args[1]); len(al) != n-1 {
			ex.Fail("C20: Mock does not receive every interface argument")
		} else {
			okArgs := true
			for i := range al {
				if al[i] != f.args[i+1] {
					okArgs = false
				}
			}
			if okArgs {
				ex.Pass("C20: interface arguments are passed to Mock unchanged and in order")
			} else {
				ex.Fail("C20: interface arguments are reordered or altered before Mock")
			}
		}
	}
	// ---- C08 & co.: flag plumbing into moq.Config ----
	if len(news) == 1 {
		ct := repo.named(pkgMoq, "Config")
		cfg := news[0].Args[0].(*exec.Struct)
		eq := func(field string, want *smt.Term) *smt.Term {
			return c.Eq(cfg.F[fieldIndex(ct, field)].(*smt.Term), want)
		}
		ex.Oblige(eq("WithResets", f.resets), "C08: -with-resets reaches moq.Config unchanged")
		ex.Oblige(c.And(eq("StubImpl", f.stub), eq("SkipEnsure", f.skip)), "C07/C10: -stub and -skip-ensure reach moq.Config unchanged")
		ex.Oblige(c.And(eq("PkgName", f.pkg), eq("Formatter", f.fmtr), eq("SrcDir", f.args[0])), "C10/C16: -pkg, -fmt and the source directory reach moq.Config unchanged")
	}
	// ---- C17: file-state model of the -out path ----
	// state: "old" (untouched), "gone", "new" (complete output), "damaged"
	state := "old"
	for _, e := range ex.Events {
		switch {
		case e.Kind == "Remove" && e.Note == "ok":
			state = "gone"
		case e.Kind == "WriteFile" && e.Note == "ok":
			state = "new"
		case e.Kind == "WriteFile" && e.Note == "fail-after-truncate":
			state = "damaged"
		}
	}
	if failed {
		switch state {
		case "new":
			ex.Fail("C17: run fails but the -out file was replaced")
		case "damaged":
			if kf := ic.Env.KF.Open("C17", "out-file-truncated-by-failed-write"); kf != nil {
				ic.kfHit("C17", "out-file-truncated-by-failed-write")
			} else {
				ex.Fail("C17: a failed os.WriteFile leaves the previous -out file truncated although moq reports failure")
			}
		case "gone":
			ex.Oblige(f.remove, "C17: the old file is gone only if -rm was given")
		default:
			ex.Pass("C17: failing run leaves the -out file untouched")
		}
	} else {
		ex.Oblige(c.Implies(hasOut, c.BoolC(state == "new")), "C17/C16/C15: successful run with -out leaves the complete new file")
		ex.Oblige(c.Implies(c.Not(hasOut), c.BoolC(state == "old" && len(stdw) == 1)), "C17: successful run without -out writes the output once to stdout and touches no file")
	}
}

// HRun executes main.run for symbolic flags under all fault combinations.
func HRun() *Harness {
	hh := &Harness{
		ID:    "H.run",
		Doc:   "main.run from SSA: symbolic flags and 0–3 arguments; every environment call may fail; event trace checked against the all-or-nothing / only-the-out-file rules",
		Funcs: []string{"main.run"},
		Assumptions: []string{
			"moq.New and (*Mocker).Mock are replaced by their contracts: New loads or fails; Mock either fails having written nothing or writes the complete output once (this is what H.mock establishes)",
			"os.Remove: succeeds / fails with not-exist / fails otherwise; os.MkdirAll: succeeds or fails; os.WriteFile: succeeds, fails before opening, or fails after truncating (its documented partial-write behaviour); os.OpenFile/os.Create + (*os.File).Write are the same three outcomes with the open flags checked (O_CREATE|O_TRUNC, writable, neither O_APPEND nor O_EXCL); Close and Sync succeed",
			"filepath.Dir is an uninterpreted function; packages.Load does not write into the source tree (the property's own proviso)",
		},
		Bounds:  []string{"0–3 command-line arguments (arity matters only through len < 2)", "all strings unbounded"},
		Outside: []string{"what the go command spawned by packages.Load does on disk"},
		Confirm: faultConfirm(instArgs),
	}
	hh.Instances = func(env *Env) []Instance {
		var out []Instance
		for n := 0; n <= 3; n++ {
			n := n
			out = append(out, Instance{Name: fmt.Sprintf("args=%d", n), Run: func(ic *IC) *exec.Stats {
				fn := env.Repo.Fn(pkgMain, "run")
				stubs := RunEnvStubs(env.Repo)
				return ic.Explore(func(ex *exec.Exec) {
					ex.LocalStubs = stubs
					f := symFlags(ex, env.Repo, n)
					ret, pan := ex.CallCatch(fn, []exec.Value{f.val})
					if pan != nil {
						ex.Fail("C19: run panics: " + pan.Msg)
						return
					}
					failed := !isNilIface(ret)
					ic.Witness(ex, func(m map[string]string) any {
						var evs []string
						for _, e := range ex.Events {
							evs = append(evs, e.Kind+":"+e.Note)
						}
						return map[string]any{"model": m, "events": evs, "returned_error": failed}
					})
					checkRunTrace(ic, ex, env.Repo, f, failed, ret)
				})
			}})
		}
		return out
	}
	return hh
}

// HMain executes main.main with flag.* stubs; run() is executed for real underneath.
func HMain() *Harness {
	hh := &Harness{
		ID:          "H.main",
		Doc:         "main.main from SSA with symbolic flag values: error from run ⇒ message on stderr and exit status 1; success ⇒ normal return; -version exits 0 before anything else",
		Funcs:       []string{"main.main", "main.run", "main.main$1"},
		Assumptions: []string{"flag.StringVar/BoolVar/Bool bind arbitrary values; flag.Parse does not fail (the flag package exits by itself on bad flags)", "same environment contracts as H.run"},
		Bounds:      []string{"0–3 positional arguments"},
	}
	hh.Instances = func(env *Env) []Instance {
		var out []Instance
		for n := 1; n <= 3; n++ {
			n := n
			out = append(out, Instance{Name: fmt.Sprintf("args=%d", n), Run: func(ic *IC) *exec.Stats {
				fn := env.Repo.Fn(pkgMain, "main")
				stubs := RunEnvStubs(env.Repo)
				return ic.Explore(func(ex *exec.Exec) {
					c := ex.C
					ex.LocalStubs = stubs
					ex.User["nargs"] = n
					_, pan := ex.CallCatch(fn, nil)
					exited, code := false, c.IntC(0)
					if pan != nil {
						ep, ok := pan.Val.(exitPanic)
						if !ok {
							ex.Fail("C19: main panics: " + pan.Msg)
							return
						}
						exited, code = true, ep.Code
					}
					ic.Witness(ex, nil)
					version := c.Var("flag_version", smt.Bool)
					if ex.Branch(version) {
						if !exited || !(code.IsConst && code.I == 0) || len(eventsOf(ex, "New")) > 0 {
							ex.Fail("C17: -version does not exit 0 immediately")
						} else {
							ex.Pass("C17: -version prints and exits 0 without generating")
						}
						return
					}
					// did run fail?  every failing path of run has some fault/Remove/WriteFile failure or too few args
					stepFailed := len(faultsTaken(ex)) > 0 || n < 2
					for _, e := range ex.Events {
						if (e.Kind == "Remove" && e.Note == "fail") || (e.Kind == "WriteFile" && e.Note != "ok") {
							stepFailed = true
						}
					}
					var errPrinted bool
					for _, e := range ex.Events {
						if e.Kind == "Fprintln" && e.Note == "stderr" && len(e.Args) == 1 {
							if iv, ok := e.Args[0].(exec.Iface); ok {
								if _, isErr := iv.V.(*exec.ErrObj); isErr {
									errPrinted = true
								}
							}
						}
					}
					if stepFailed {
						if !exited || !(code.IsConst && code.I == 1) || !errPrinted {
							ex.Fail("C17: a failing run does not end in 'error on stderr + exit status 1'")
						} else {
							ex.Pass("C17: failing run prints the error to stderr and exits 1")
						}
					} else {
						if exited || errPrinted {
							ex.Fail("C17: successful run exits non-zero or prints an error")
						} else {
							ex.Pass("C17: successful run returns normally (exit status 0)")
						}
					}
				})
			}})
		}
		return out
	}
	return hh
}

var _ = types.Typ
