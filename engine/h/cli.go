package h

import (
	"encoding/json"
	"fmt"
	"os"
	"path/filepath"
	"sort"
	"strings"
	"sync"
	"time"
)

var moqBuild sync.Once
var moqBin string
var moqBuildErr error

func (env *Env) scratch() string {
	env.mu.Lock()
	defer env.mu.Unlock()
	if env.Scratch == "" {
		d, err := os.MkdirTemp("/var/tmp", "moqsym-")
		if err != nil {
			panic(err)
		}
		env.Scratch = d
	}
	return env.Scratch
}

// MoqBin builds the real moq CLI from the repository's current working tree (once per run).
func (env *Env) MoqBin() (string, error) {
	moqBuild.Do(func() {
		bin := filepath.Join(env.scratch(), "moq")
		out, err := runCmd(env.RepoDir, 10*time.Minute, goEnv(), "go", "build", "-o", bin, ".")
		if err != nil {
			moqBuildErr = fmt.Errorf("building moq: %v\n%s", err, out)
			return
		}
		moqBin = bin
	})
	return moqBin, moqBuildErr
}

// cliEnv is the environment of replayed CLI runs: offline, no -mod flag (scratch modules are complete).
func cliEnv() []string {
	var env []string
	for _, e := range os.Environ() {
		if strings.HasPrefix(e, "GOFLAGS=") || strings.HasPrefix(e, "GOPROXY=") {
			continue
		}
		env = append(env, e)
	}
	return append(env, "GOFLAGS=", "GOPROXY=off")
}

// CLICase is a concrete input for the real CLI: a file tree, a working directory and arguments.
type CLICase struct {
	Files   map[string]string `json:"files"`
	Cwd     string            `json:"cwd"`
	Args    []string          `json:"args"`
	Expect  string            `json:"expect"` // substring of combined output that demonstrates the failure
	Timeout int               `json:"timeout_s,omitempty"`
	// CheckBuild: after moq ran, `go build ./...` / `go vet` in Cwd must fail with Expect (output does not compile)
	ThenBuild bool `json:"then_build,omitempty"`
	// Setup / Post / Teardown are shell snippets run in the root of the materialised tree
	// (Setup before moq, Post after it with its output appended, Teardown always last).
	Setup    string `json:"setup,omitempty"`
	Post     string `json:"post,omitempty"`
	Teardown string `json:"teardown,omitempty"`
}

type CLIResult struct {
	Out      string
	Exit     int
	TimedOut bool
}

func writeTree(root string, files map[string]string) error {
	for name, content := range files {
		p := filepath.Join(root, name)
		if err := os.MkdirAll(filepath.Dir(p), 0o755); err != nil {
			return err
		}
		if err := os.WriteFile(p, []byte(content), 0o644); err != nil {
			return err
		}
	}
	return nil
}

// RunCLI materialises the case in a scratch directory and runs the real moq binary.
func (env *Env) RunCLI(c *CLICase) (*CLIResult, string, error) {
	bin, err := env.MoqBin()
	if err != nil {
		return nil, "", err
	}
	root, err := os.MkdirTemp(env.scratch(), "case-")
	if err != nil {
		return nil, "", err
	}
	if err := writeTree(root, c.Files); err != nil {
		return nil, root, err
	}
	to := time.Duration(c.Timeout) * time.Second
	if to == 0 {
		to = 120 * time.Second
	}
	cwd := filepath.Join(root, c.Cwd)
	if c.Teardown != "" {
		defer runCmd(root, time.Minute, cliEnv(), "sh", "-c", c.Teardown)
	}
	if c.Setup != "" {
		if sout, serr := runCmd(root, time.Minute, cliEnv(), "sh", "-c", c.Setup); serr != nil {
			return nil, root, fmt.Errorf("setup failed: %v: %s", serr, sout)
		}
	}
	out, rerr := runCmd(cwd, to, cliEnv(), bin, c.Args...)
	res := &CLIResult{Out: out}
	if c.Post != "" {
		pout, _ := runCmd(root, time.Minute, cliEnv(), "sh", "-c", c.Post)
		defer func() { res.Out += "\n--- post ---\n" + pout }()
	}
	if rerr != nil {
		res.Exit = 1
		if strings.Contains(rerr.Error(), "timeout") {
			res.TimedOut = true
		}
		if ee, ok := rerr.(interface{ ExitCode() int }); ok {
			res.Exit = ee.ExitCode()
		}
	}
	if c.ThenBuild {
		bout, berr := runCmd(cwd, 5*time.Minute, cliEnv(), "go", "vet", "./...")
		res.Out += "\n--- go vet ./... ---\n" + bout
		if berr != nil {
			res.Exit = 1
		}
	}
	return res, root, nil
}

// replayCLI replays a counterexample through the real CLI and records a replay directory.
func (ic *IC) replayCLI(v *Violation, c *CLICase) {
	env := ic.Env
	dir := env.replayDir(v.Property, v.Key)
	res, root, err := env.RunCLI(c)
	if root != "" {
		defer os.RemoveAll(root)
	}
	cj, _ := json.MarshalIndent(c, "", " ")
	os.WriteFile(filepath.Join(dir, "case.json"), cj, 0o644)
	writeTree(filepath.Join(dir, "tree"), c.Files)
	mj, _ := json.MarshalIndent(map[string]any{"property": v.Property, "harness": v.Harness, "instance": v.Instance, "label": v.Label, "model": v.Model}, "", " ")
	os.WriteFile(filepath.Join(dir, "model.json"), mj, 0o644)
	var sh strings.Builder
	sh.WriteString("#!/bin/sh\n# rebuilds moq from " + env.RepoDir + " and re-runs the counterexample\nset -e\nexport GOFLAGS=-mod=mod GOPROXY=off\nW=$(mktemp -d /var/tmp/moqreplay.XXXXXX)\ntrap 'rm -rf \"$W\"' EXIT\n")
	sh.WriteString("(cd " + env.RepoDir + " && go build -o \"$W/moq\" .)\ncp -r \"$(dirname \"$0\")/tree\" \"$W/tree\"\ncd \"$W/tree/" + c.Cwd + "\"\nset +e\n")
	sh.WriteString("\"$W/moq\"")
	for _, a := range c.Args {
		sh.WriteString(" '" + strings.ReplaceAll(a, "'", "'\\''") + "'")
	}
	sh.WriteString(" 2>&1 | head -40\n")
	if c.ThenBuild {
		sh.WriteString("go vet ./... 2>&1 | head -20\n")
	}
	os.WriteFile(filepath.Join(dir, "replay.sh"), []byte(sh.String()), 0o755)
	v.Replay = dir
	if err != nil {
		v.Detail = "replay could not run: " + err.Error()
		return
	}
	os.WriteFile(filepath.Join(dir, "replay.out"), []byte(res.Out), 0o644)
	v.Confirmed = c.Expect != "" && strings.Contains(res.Out, c.Expect)
	if c.Expect == "<timeout>" {
		v.Confirmed = res.TimedOut
	}
	v.Detail = short(strings.TrimSpace(res.Out), 500)
	if !v.Confirmed {
		os.WriteFile(filepath.Join(dir, "UNCONFIRMED"), []byte("the model did not reproduce on the real build; encoding defect, not a violation\n"), 0o644)
	}
}

// checkWitness re-runs the recorded witness of a known finding; true if it still fails as recorded.
// Witness kinds: {"kind":"cli", ...CLICase} and {"kind":"fault", "case":FaultCase, "expect":"C17: ..."}.
func (env *Env) checkWitness(kf *KnownFinding) (bool, string) {
	b, err := json.Marshal(kf.Witness)
	if err != nil || kf.Witness == nil {
		return false, "no witness recorded"
	}
	var kind struct {
		Kind   string     `json:"kind"`
		Case   *FaultCase `json:"case"`
		Expect string     `json:"expect"`
	}
	json.Unmarshal(b, &kind)
	if kind.Kind == "fault" && kind.Case != nil {
		findings, tr, err := env.runFaultCase(kind.Case)
		if err != nil {
			return false, err.Error()
		}
		for _, f := range findings {
			if strings.Contains(f, kind.Expect) {
				return true, f
			}
		}
		return false, short(tr, 200)
	}
	if kind.Kind == "imports" {
		var w struct {
			Shape, Expect string
			Names         map[string]string
		}
		json.Unmarshal(b, &w)
		sh := importsShapeByName(w.Shape)
		if sh == nil {
			return false, "unknown shape " + w.Shape
		}
		findings, tr, err := env.importsObserve(*sh, w.Names)
		if err != nil {
			return false, err.Error()
		}
		for _, f := range findings {
			if strings.Contains(f, w.Expect) {
				return true, f
			}
		}
		return false, short(tr, 300)
	}
	if kind.Kind == "fixpoint" {
		var w struct {
			Shape string
			Names map[string]string
		}
		json.Unmarshal(b, &w)
		sh := importsShapeByName(w.Shape)
		if sh == nil {
			return false, "unknown shape " + w.Shape
		}
		differs, tr, _, err := env.fixpointObserve(*sh, w.Names)
		if err != nil {
			return false, err.Error()
		}
		return differs, short(tr, 300)
	}
	if kind.Kind == "vars" {
		var w struct {
			Shape, Dest, Expect string
			Names               map[string]string
		}
		json.Unmarshal(b, &w)
		for _, sh := range varShapes {
			if sh.Name == w.Shape {
				findings, tr, err := env.varsObserve(sh, w.Names, w.Dest)
				if err != nil {
					return false, err.Error()
				}
				for _, f := range findings {
					if strings.Contains(f, w.Expect) {
						return true, f
					}
				}
				return false, short(tr, 300)
			}
		}
		return false, "unknown shape " + w.Shape
	}
	var c CLICase
	if err := json.Unmarshal(b, &c); err != nil || len(c.Files) == 0 {
		return false, "witness is not a CLI case"
	}
	res, root, err := env.RunCLI(&c)
	if root != "" {
		defer os.RemoveAll(root)
	}
	if err != nil {
		return false, err.Error()
	}
	if c.Expect == "<timeout>" {
		return res.TimedOut, short(res.Out, 200)
	}
	return strings.Contains(res.Out, c.Expect), short(strings.TrimSpace(res.Out), 200)
}

func sortedKeys[V any](m map[string]V) []string {
	var ks []string
	for k := range m {
		ks = append(ks, k)
	}
	sort.Strings(ks)
	return ks
}

func removeAll(p string) { os.RemoveAll(p) }

func containsAll(s string, subs ...string) bool {
	for _, x := range subs {
		if !strings.Contains(s, x) {
			return false
		}
	}
	return true
}

func containsAny(s string, subs ...string) bool {
	for _, x := range subs {
		if strings.Contains(s, x) {
			return true
		}
	}
	return false
}
