package h

import (
	"fmt"
	"go/types"
	"sort"
	"strconv"

	"moqsym/exec"
	"moqsym/smt"
)

// The go/types model: concrete-shaped type trees whose leaves (names, package names and paths)
// are SMT terms. Every go/types function moq calls is a stub over this model.

type MPkg struct {
	Name, Path *smt.Term
	Scope      *MScope
	Tag        string
}

type MScope struct {
	Names []*smt.Term
	Objs  []*MObj
}

type MObj struct {
	Origin   *MObj  // for methods of instantiated generic interfaces: the generic method
	Kind     string // Var | Func | TypeName
	Name     *smt.Term
	Pkg      *MPkg
	Typ      *MType
	Tag      string
	Embedded bool
}

type MTuple struct{ Vars []*MObj }

type MTerm struct {
	Tilde bool
	T     *MType
}

type MTypeList struct{ Ts []*MType }

type MType struct {
	K          string
	Basic      *types.Basic
	Obj        *MObj
	Elem, Key  *MType
	Under      *MType // Named: underlying; Alias: aliased type
	Params     *MTuple
	Results    *MTuple
	Variadic   *smt.Term
	Fields     []*MObj
	Methods    []*MObj  // explicit methods (Interface)
	Embeds     []*MType // embedded types (Interface)
	AllMethods []*MObj  // complete method set, sorted like go/types does (by name)
	Terms      []*MTerm
	TArgs      *MTypeList
	TParams    *MTypeList
	Constraint *MType
	ArrLen     int64
	Dir        types.ChanDir
	Implicit   bool
	Tag        string
}

// All model objects are pointers in the interpreted program. They are locations that cannot be
// loaded or stored, but whose embedded `object` field can be addressed (promoted methods).
func noLoad(ex *exec.Exec, what string) exec.Value {
	ex.Inconclusive("load/store through a go/types model pointer (" + what + ")")
	return nil
}
func (o *MObj) Load(ex *exec.Exec) exec.Value            { return noLoad(ex, "object") }
func (o *MObj) Store(ex *exec.Exec, v exec.Value)        { noLoad(ex, "object") }
func (o *MObj) FieldAddr(ex *exec.Exec, f int) exec.Loc  { return o }
func (p *MPkg) Load(ex *exec.Exec) exec.Value            { return noLoad(ex, "package") }
func (p *MPkg) Store(ex *exec.Exec, v exec.Value)        { noLoad(ex, "package") }
func (t *MType) Load(ex *exec.Exec) exec.Value           { return noLoad(ex, "type") }
func (t *MType) Store(ex *exec.Exec, v exec.Value)       { noLoad(ex, "type") }
func (t *MType) FieldAddr(ex *exec.Exec, f int) exec.Loc { return t }
func (t *MTuple) Load(ex *exec.Exec) exec.Value          { return noLoad(ex, "tuple") }
func (t *MTuple) Store(ex *exec.Exec, v exec.Value)      { noLoad(ex, "tuple") }
func (t *MTypeList) Load(ex *exec.Exec) exec.Value       { return noLoad(ex, "typelist") }
func (t *MTypeList) Store(ex *exec.Exec, v exec.Value)   { noLoad(ex, "typelist") }
func (t *MTerm) Load(ex *exec.Exec) exec.Value           { return noLoad(ex, "term") }
func (t *MTerm) Store(ex *exec.Exec, v exec.Value)       { noLoad(ex, "term") }
func (t *MScope) Load(ex *exec.Exec) exec.Value          { return noLoad(ex, "scope") }
func (t *MScope) Store(ex *exec.Exec, v exec.Value)      { noLoad(ex, "scope") }

// TM binds the model to the go/types package of the loaded program (for dynamic type tags).
type TM struct {
	repo *Repo
	meta map[string]types.Type
}

func NewTM(repo *Repo) *TM {
	tm := &TM{repo: repo, meta: map[string]types.Type{}}
	gt := repo.Pkgs["go/types"]
	if gt == nil {
		panic("go/types not in the program")
	}
	for _, n := range []string{"Basic", "Named", "Alias", "Pointer", "Slice", "Array", "Map", "Chan", "Signature", "Struct", "Interface", "Union", "TypeParam", "Tuple", "Var", "Func", "TypeName", "Package"} {
		obj := gt.Pkg.Scope().Lookup(n)
		if obj == nil {
			panic("go/types." + n + " not found")
		}
		tm.meta[n] = types.NewPointer(obj.Type())
	}
	return tm
}

// TypeVal wraps a model type as a types.Type interface value.
func (tm *TM) TypeVal(t *MType) exec.Value {
	if t == nil {
		return exec.Iface{}
	}
	return exec.Iface{T: tm.meta[t.K], V: t}
}

// ObjVal wraps a model object as a types.Object interface value.
func (tm *TM) ObjVal(o *MObj) exec.Value {
	if o == nil {
		return exec.Iface{}
	}
	return exec.Iface{T: tm.meta[o.Kind], V: o}
}

func ptrOrNil[T any](p *T) exec.Value {
	if p == nil {
		return exec.NilV{}
	}
	return p
}

// Underlying implements Type.Underlying on the model.
func (t *MType) Underlying() *MType {
	switch t.K {
	case "Named":
		return t.Under.Underlying()
	case "Alias":
		return t.Under.Underlying()
	case "TypeParam":
		c := t.Constraint.Underlying()
		if c.K == "Interface" {
			return c
		}
		// a non-interface constraint is wrapped in an implicit interface by go/types
		return &MType{K: "Interface", Embeds: []*MType{t.Constraint}, Implicit: true}
	}
	return t
}

func (t *MType) Invoke(ex *exec.Exec, method string, args []exec.Value) exec.Value {
	tm := ex.User["tm"].(*TM)
	switch method {
	case "Underlying":
		return tm.TypeVal(t.Underlying())
	case "String":
		return tm.TypeString(ex, t, nil)
	case "Obj":
		if t.Obj != nil {
			return t.Obj
		}
	case "TypeArgs":
		return ptrOrNil(t.TArgs)
	case "TypeParams":
		return ptrOrNil(t.TParams)
	case "Elem":
		return tm.TypeVal(t.Elem)
	case "Constraint":
		return tm.TypeVal(t.Constraint)
	}
	ex.Inconclusive("types.Type." + method + " on the model")
	return nil
}

func (t *MType) StringTerm(ex *exec.Exec) *smt.Term {
	return ex.User["tm"].(*TM).TypeString(ex, t, nil)
}

func (o *MObj) Invoke(ex *exec.Exec, method string, args []exec.Value) exec.Value {
	tm := ex.User["tm"].(*TM)
	switch method {
	case "Type":
		return tm.TypeVal(o.Typ)
	case "Name":
		return o.Name
	case "Pkg":
		return ptrOrNil(o.Pkg)
	}
	ex.Inconclusive("types.Object." + method + " on the model")
	return nil
}

// TypeString is the reference renderer (go/types.TypeString) over the model. qf may be nil.
func (tm *TM) TypeString(ex *exec.Exec, t *MType, qf exec.Value) *smt.Term {
	c := ex.C
	var w func(t *MType) *smt.Term
	qual := func(o *MObj) *smt.Term {
		if o.Pkg == nil {
			return o.Name
		}
		var q *smt.Term
		if qf == nil {
			q = o.Pkg.Path
		} else {
			q = ex.CallValue(qf, []exec.Value{o.Pkg}).(*smt.Term)
		}
		if q.IsConst {
			if q.S == "" {
				return o.Name
			}
			return c.Concat(q, c.StrC("."), o.Name)
		}
		// symbolic qualifier: decide emptiness on the path
		if ex.Branch(c.Eq(q, c.StrC(""))) {
			return o.Name
		}
		return c.Concat(q, c.StrC("."), o.Name)
	}
	tuple := func(tp *MTuple, variadic *smt.Term) *smt.Term {
		parts := []*smt.Term{c.StrC("(")}
		if tp != nil {
			for i, v := range tp.Vars {
				if i > 0 {
					parts = append(parts, c.StrC(", "))
				}
				if !(v.Name.IsConst && v.Name.S == "") {
					parts = append(parts, v.Name, c.StrC(" "))
				}
				if variadic != nil && i == len(tp.Vars)-1 {
					isVar := variadic.IsConst && variadic.B
					if !variadic.IsConst {
						isVar = ex.Branch(variadic)
					}
					if isVar {
						if v.Typ.K == "Slice" {
							parts = append(parts, c.StrC("..."), w(v.Typ.Elem))
							continue
						}
						// append([]byte, string...) special case of go/types
						parts = append(parts, w(v.Typ), c.StrC("..."))
						continue
					}
				}
				parts = append(parts, w(v.Typ))
			}
		}
		parts = append(parts, c.StrC(")"))
		return c.Concat(parts...)
	}
	sig := func(s *MType) *smt.Term {
		parts := []*smt.Term{tuple(s.Params, s.Variadic)}
		n := 0
		if s.Results != nil {
			n = len(s.Results.Vars)
		}
		if n == 0 {
			return c.Concat(parts...)
		}
		parts = append(parts, c.StrC(" "))
		if n == 1 && s.Results.Vars[0].Name.IsConst && s.Results.Vars[0].Name.S == "" {
			parts = append(parts, w(s.Results.Vars[0].Typ))
			return c.Concat(parts...)
		}
		parts = append(parts, tuple(s.Results, nil))
		return c.Concat(parts...)
	}
	tlist := func(l *MTypeList) *smt.Term {
		parts := []*smt.Term{c.StrC("[")}
		for i, a := range l.Ts {
			if i > 0 {
				parts = append(parts, c.StrC(","))
			}
			parts = append(parts, w(a))
		}
		parts = append(parts, c.StrC("]"))
		return c.Concat(parts...)
	}
	w = func(t *MType) *smt.Term {
		switch t.K {
		case "Basic":
			return c.StrC(t.Basic.Name())
		case "Named", "Alias":
			r := qual(t.Obj)
			if t.TArgs != nil && len(t.TArgs.Ts) > 0 {
				r = c.Concat(r, tlist(t.TArgs))
			}
			return r
		case "TypeParam":
			return t.Obj.Name
		case "Pointer":
			return c.Concat(c.StrC("*"), w(t.Elem))
		case "Slice":
			return c.Concat(c.StrC("[]"), w(t.Elem))
		case "Array":
			return c.Concat(c.StrC("["+strconv.FormatInt(t.ArrLen, 10)+"]"), w(t.Elem))
		case "Map":
			return c.Concat(c.StrC("map["), w(t.Key), c.StrC("]"), w(t.Elem))
		case "Chan":
			var s string
			paren := false
			switch t.Dir {
			case types.SendRecv:
				s = "chan "
				if t.Elem.K == "Chan" && t.Elem.Dir == types.RecvOnly {
					paren = true
				}
			case types.SendOnly:
				s = "chan<- "
			case types.RecvOnly:
				s = "<-chan "
			}
			if paren {
				return c.Concat(c.StrC(s+"("), w(t.Elem), c.StrC(")"))
			}
			return c.Concat(c.StrC(s), w(t.Elem))
		case "Signature":
			return c.Concat(c.StrC("func"), sig(t))
		case "Struct":
			parts := []*smt.Term{c.StrC("struct{")}
			for i, f := range t.Fields {
				if i > 0 {
					parts = append(parts, c.StrC("; "))
				}
				if !f.Embedded {
					parts = append(parts, f.Name, c.StrC(" "))
				}
				parts = append(parts, w(f.Typ))
			}
			parts = append(parts, c.StrC("}"))
			return c.Concat(parts...)
		case "Interface":
			if t.Tag == "any" {
				return c.StrC("any")
			}
			if t.Implicit && len(t.Methods) == 0 && len(t.Embeds) == 1 {
				return w(t.Embeds[0])
			}
			parts := []*smt.Term{c.StrC("interface{")}
			first := true
			for _, m := range t.Methods {
				if !first {
					parts = append(parts, c.StrC("; "))
				}
				first = false
				parts = append(parts, m.Name, sig(m.Typ))
			}
			for _, e := range t.Embeds {
				if !first {
					parts = append(parts, c.StrC("; "))
				}
				first = false
				parts = append(parts, w(e))
			}
			parts = append(parts, c.StrC("}"))
			return c.Concat(parts...)
		case "Union":
			var parts []*smt.Term
			for i, tt := range t.Terms {
				if i > 0 {
					parts = append(parts, c.StrC(" | "))
				}
				if tt.Tilde {
					parts = append(parts, c.StrC("~"))
				}
				parts = append(parts, w(tt.T))
			}
			return c.Concat(parts...)
		case "Tuple":
			return tuple(t.Params, nil)
		}
		ex.Inconclusive("TypeString of model kind " + t.K)
		return nil
	}
	return w(t)
}

// TypesStubs are the contracts of every go/types function moq calls, over the model.
func (tm *TM) Stubs() map[string]exec.Stub {
	st := map[string]exec.Stub{}
	I := func(ex *exec.Exec, n int) exec.Value { return ex.C.IntC(int64(n)) }
	idx := func(ex *exec.Exec, v exec.Value, n int, what string) int {
		t := v.(*smt.Term)
		if !t.IsConst {
			ex.Inconclusive("symbolic index into " + what)
		}
		if t.I < 0 || int(t.I) >= n {
			panic(&exec.GoPanic{Msg: fmt.Sprintf("index out of range [%d] with length %d (%s)", t.I, n, what), Runtime: true})
		}
		return int(t.I)
	}
	recvT := func(ex *exec.Exec, c *exec.CallInfo, kind string) *MType {
		t, ok := c.Args[0].(*MType)
		if !ok {
			if _, isNil := c.Args[0].(exec.NilV); isNil {
				panic(&exec.GoPanic{Msg: "nil pointer dereference in " + c.Name, Runtime: true})
			}
			ex.Inconclusive(fmt.Sprintf("%s on %T", c.Name, c.Args[0]))
		}
		if kind != "" && t.K != kind {
			ex.Inconclusive(c.Name + " on model kind " + t.K)
		}
		return t
	}
	recvO := func(ex *exec.Exec, c *exec.CallInfo) *MObj {
		o, ok := c.Args[0].(*MObj)
		if !ok {
			if _, isNil := c.Args[0].(exec.NilV); isNil {
				panic(&exec.GoPanic{Msg: "nil pointer dereference in " + c.Name, Runtime: true})
			}
			ex.Inconclusive(fmt.Sprintf("%s on %T", c.Name, c.Args[0]))
		}
		return o
	}
	recvP := func(ex *exec.Exec, c *exec.CallInfo) *MPkg {
		p, ok := c.Args[0].(*MPkg)
		if !ok {
			if _, isNil := c.Args[0].(exec.NilV); isNil {
				panic(&exec.GoPanic{Msg: "nil pointer dereference in " + c.Name, Runtime: true})
			}
			ex.Inconclusive(fmt.Sprintf("%s on %T", c.Name, c.Args[0]))
		}
		return p
	}
	st["(*go/types.object).Type"] = func(ex *exec.Exec, c *exec.CallInfo) exec.Value { return tm.TypeVal(recvO(ex, c).Typ) }
	st["(*go/types.object).Name"] = func(ex *exec.Exec, c *exec.CallInfo) exec.Value { return recvO(ex, c).Name }
	st["(*go/types.object).Pkg"] = func(ex *exec.Exec, c *exec.CallInfo) exec.Value { return ptrOrNil(recvO(ex, c).Pkg) }
	st["(*go/types.Package).Path"] = func(ex *exec.Exec, c *exec.CallInfo) exec.Value { return recvP(ex, c).Path }
	st["(*go/types.Package).Name"] = func(ex *exec.Exec, c *exec.CallInfo) exec.Value { return recvP(ex, c).Name }
	st["(*go/types.Package).Scope"] = func(ex *exec.Exec, c *exec.CallInfo) exec.Value { return ptrOrNil(recvP(ex, c).Scope) }
	st["(*go/types.Scope).Lookup"] = func(ex *exec.Exec, c *exec.CallInfo) exec.Value {
		sc := c.Args[0].(*MScope)
		name := c.Args[1].(*smt.Term)
		for i, n := range sc.Names {
			if ex.Branch(ex.C.Eq(n, name)) {
				return tm.ObjVal(sc.Objs[i])
			}
		}
		return exec.Iface{}
	}
	st["go/types.NewPackage"] = func(ex *exec.Exec, c *exec.CallInfo) exec.Value {
		return &MPkg{Path: c.Args[0].(*smt.Term), Name: c.Args[1].(*smt.Term), Tag: "NewPackage"}
	}
	st["go/types.NewParam"] = func(ex *exec.Exec, c *exec.CallInfo) exec.Value {
		o := &MObj{Kind: "Var", Name: c.Args[2].(*smt.Term), Tag: "NewParam"}
		if p, ok := c.Args[1].(*MPkg); ok {
			o.Pkg = p
		}
		if iv, ok := c.Args[3].(exec.Iface); ok && iv.T != nil {
			o.Typ = iv.V.(*MType)
		}
		return o
	}
	st["go/types.NewVar"] = st["go/types.NewParam"]
	st["(*go/types.Func).Origin"] = func(ex *exec.Exec, c *exec.CallInfo) exec.Value {
		o := recvO(ex, c)
		if o.Origin != nil {
			return o.Origin
		}
		return o
	}
	st["(*go/types.TypeName).Type"] = st["(*go/types.object).Type"]
	st["go/types.IsInterface"] = func(ex *exec.Exec, c *exec.CallInfo) exec.Value {
		iv := c.Args[0].(exec.Iface)
		if iv.T == nil {
			panic(&exec.GoPanic{Msg: "nil pointer dereference in types.IsInterface", Runtime: true})
		}
		return ex.C.BoolC(iv.V.(*MType).Underlying().K == "Interface")
	}
	st["go/types.Unalias"] = func(ex *exec.Exec, c *exec.CallInfo) exec.Value {
		iv := c.Args[0].(exec.Iface)
		if iv.T == nil {
			return iv
		}
		t := iv.V.(*MType)
		for t.K == "Alias" {
			t = t.Under
		}
		return tm.TypeVal(t)
	}
	st["go/types.TypeString"] = func(ex *exec.Exec, c *exec.CallInfo) exec.Value {
		iv := c.Args[0].(exec.Iface)
		if iv.T == nil {
			return ex.C.StrC("<nil>")
		}
		return tm.TypeString(ex, iv.V.(*MType), c.Args[1])
	}
	st["(*go/types.Named).Obj"] = func(ex *exec.Exec, c *exec.CallInfo) exec.Value { return recvT(ex, c, "Named").Obj }
	st["(*go/types.Alias).Obj"] = func(ex *exec.Exec, c *exec.CallInfo) exec.Value { return recvT(ex, c, "Alias").Obj }
	st["(*go/types.TypeParam).Obj"] = func(ex *exec.Exec, c *exec.CallInfo) exec.Value { return recvT(ex, c, "TypeParam").Obj }
	st["(*go/types.TypeParam).Constraint"] = func(ex *exec.Exec, c *exec.CallInfo) exec.Value {
		return tm.TypeVal(recvT(ex, c, "TypeParam").Constraint)
	}
	targs := func(ex *exec.Exec, c *exec.CallInfo) exec.Value { return ptrOrNil(recvT(ex, c, "").TArgs) }
	st["(*go/types.Named).TypeArgs"] = targs
	st["(*go/types.Alias).TypeArgs"] = targs
	st["(*go/types.Named).TypeParams"] = func(ex *exec.Exec, c *exec.CallInfo) exec.Value { return ptrOrNil(recvT(ex, c, "Named").TParams) }
	tlLen := func(ex *exec.Exec, c *exec.CallInfo) exec.Value {
		l, ok := c.Args[0].(*MTypeList)
		if !ok {
			return I(ex, 0) // Len of a nil list is 0 in go/types
		}
		return I(ex, len(l.Ts))
	}
	tlAt := func(ex *exec.Exec, c *exec.CallInfo) exec.Value {
		l, ok := c.Args[0].(*MTypeList)
		if !ok {
			panic(&exec.GoPanic{Msg: "nil pointer dereference in " + c.Name, Runtime: true})
		}
		return l.Ts[idx(ex, c.Args[1], len(l.Ts), c.Name)]
	}
	st["(*go/types.TypeList).Len"] = tlLen
	st["(*go/types.TypeList).At"] = func(ex *exec.Exec, c *exec.CallInfo) exec.Value { return tm.TypeVal(tlAt(ex, c).(*MType)) }
	st["(*go/types.TypeParamList).Len"] = tlLen
	st["(*go/types.TypeParamList).At"] = tlAt
	elem := func(kind string) exec.Stub {
		return func(ex *exec.Exec, c *exec.CallInfo) exec.Value { return tm.TypeVal(recvT(ex, c, kind).Elem) }
	}
	for _, k := range []string{"Array", "Slice", "Chan", "Pointer", "Map"} {
		st["(*go/types."+k+").Elem"] = elem(k)
	}
	st["(*go/types.Map).Key"] = func(ex *exec.Exec, c *exec.CallInfo) exec.Value { return tm.TypeVal(recvT(ex, c, "Map").Key) }
	st["(*go/types.Signature).Params"] = func(ex *exec.Exec, c *exec.CallInfo) exec.Value { return ptrOrNil(recvT(ex, c, "Signature").Params) }
	st["(*go/types.Signature).Results"] = func(ex *exec.Exec, c *exec.CallInfo) exec.Value { return ptrOrNil(recvT(ex, c, "Signature").Results) }
	st["(*go/types.Signature).Variadic"] = func(ex *exec.Exec, c *exec.CallInfo) exec.Value { return recvT(ex, c, "Signature").Variadic }
	st["(*go/types.Tuple).Len"] = func(ex *exec.Exec, c *exec.CallInfo) exec.Value {
		t, ok := c.Args[0].(*MTuple)
		if !ok {
			return I(ex, 0)
		}
		return I(ex, len(t.Vars))
	}
	st["(*go/types.Tuple).At"] = func(ex *exec.Exec, c *exec.CallInfo) exec.Value {
		t, ok := c.Args[0].(*MTuple)
		if !ok {
			panic(&exec.GoPanic{Msg: "nil pointer dereference in Tuple.At", Runtime: true})
		}
		return t.Vars[idx(ex, c.Args[1], len(t.Vars), "Tuple.At")]
	}
	st["(*go/types.Struct).NumFields"] = func(ex *exec.Exec, c *exec.CallInfo) exec.Value { return I(ex, len(recvT(ex, c, "Struct").Fields)) }
	st["(*go/types.Struct).Field"] = func(ex *exec.Exec, c *exec.CallInfo) exec.Value {
		t := recvT(ex, c, "Struct")
		return t.Fields[idx(ex, c.Args[1], len(t.Fields), "Struct.Field")]
	}
	st["(*go/types.Interface).NumExplicitMethods"] = func(ex *exec.Exec, c *exec.CallInfo) exec.Value {
		return I(ex, len(recvT(ex, c, "Interface").Methods))
	}
	st["(*go/types.Interface).ExplicitMethod"] = func(ex *exec.Exec, c *exec.CallInfo) exec.Value {
		t := recvT(ex, c, "Interface")
		return t.Methods[idx(ex, c.Args[1], len(t.Methods), "Interface.ExplicitMethod")]
	}
	st["(*go/types.Interface).NumEmbeddeds"] = func(ex *exec.Exec, c *exec.CallInfo) exec.Value {
		return I(ex, len(recvT(ex, c, "Interface").Embeds))
	}
	st["(*go/types.Interface).EmbeddedType"] = func(ex *exec.Exec, c *exec.CallInfo) exec.Value {
		t := recvT(ex, c, "Interface")
		return tm.TypeVal(t.Embeds[idx(ex, c.Args[1], len(t.Embeds), "Interface.EmbeddedType")])
	}
	st["(*go/types.Interface).NumMethods"] = func(ex *exec.Exec, c *exec.CallInfo) exec.Value {
		return I(ex, len(recvT(ex, c, "Interface").AllMethods))
	}
	st["(*go/types.Interface).Method"] = func(ex *exec.Exec, c *exec.CallInfo) exec.Value {
		t := recvT(ex, c, "Interface")
		return t.AllMethods[idx(ex, c.Args[1], len(t.AllMethods), "Interface.Method")]
	}
	st["(*go/types.Interface).Complete"] = func(ex *exec.Exec, c *exec.CallInfo) exec.Value { return recvT(ex, c, "Interface") }
	st["(*go/types.Union).Term"] = func(ex *exec.Exec, c *exec.CallInfo) exec.Value {
		t := recvT(ex, c, "Union")
		return t.Terms[idx(ex, c.Args[1], len(t.Terms), "Union.Term")]
	}
	st["(*go/types.Term).Type"] = func(ex *exec.Exec, c *exec.CallInfo) exec.Value {
		t, ok := c.Args[0].(*MTerm)
		if !ok {
			panic(&exec.GoPanic{Msg: "nil pointer dereference in Term.Type", Runtime: true})
		}
		return tm.TypeVal(t.T)
	}
	st["(*go/types.Basic).Info"] = func(ex *exec.Exec, c *exec.CallInfo) exec.Value {
		return ex.C.IntC(int64(recvT(ex, c, "Basic").Basic.Info()))
	}
	st["(*go/types.Basic).String"] = func(ex *exec.Exec, c *exec.CallInfo) exec.Value {
		return ex.C.StrC(recvT(ex, c, "Basic").Basic.String())
	}
	return st
}

// ---- conversion real go/types -> model ----

// Conv converts real go/types objects into the model, consulting Sym for symbolic leaves.
type Conv struct {
	ex    *exec.Exec
	types map[types.Type]*MType
	objs  map[types.Object]*MObj
	pkgs  map[*types.Package]*MPkg
	// NameOf returns a symbolic name for an object, or nil to keep the concrete name.
	NameOf func(o types.Object) *smt.Term
	// PkgOf returns a model package for a real package, or nil for the default conversion.
	PkgOf func(p *types.Package) *MPkg
}

func NewConv(ex *exec.Exec) *Conv {
	return &Conv{ex: ex, types: map[types.Type]*MType{}, objs: map[types.Object]*MObj{}, pkgs: map[*types.Package]*MPkg{}}
}

// RealOf returns the go/types type a model type was converted from (nil if it was built otherwise).
func (cv *Conv) RealOf(m *MType) types.Type {
	if m == nil {
		return nil
	}
	for t, x := range cv.types {
		if x == m {
			return t
		}
	}
	return nil
}

func (cv *Conv) Pkg(p *types.Package) *MPkg {
	if p == nil {
		return nil
	}
	if m, ok := cv.pkgs[p]; ok {
		return m
	}
	var m *MPkg
	if cv.PkgOf != nil {
		m = cv.PkgOf(p)
	}
	if m == nil {
		m = &MPkg{Name: cv.ex.C.StrC(p.Name()), Path: cv.ex.C.StrC(p.Path()), Tag: p.Path()}
	}
	cv.pkgs[p] = m
	return m
}

func (cv *Conv) Obj(o types.Object) *MObj {
	if o == nil {
		return nil
	}
	if m, ok := cv.objs[o]; ok {
		return m
	}
	m := &MObj{Tag: o.Name()}
	cv.objs[o] = m
	switch x := o.(type) {
	case *types.Var:
		m.Kind = "Var"
		m.Embedded = x.Embedded()
	case *types.Func:
		m.Kind = "Func"
		if x.Origin() != x {
			m.Origin = cv.Obj(x.Origin())
		}
	case *types.TypeName:
		m.Kind = "TypeName"
	default:
		cv.ex.Inconclusive(fmt.Sprintf("model conversion of object %T", o))
	}
	m.Name = cv.ex.C.StrC(o.Name())
	if cv.NameOf != nil {
		if t := cv.NameOf(o); t != nil {
			m.Name = t
		}
	}
	m.Pkg = cv.Pkg(o.Pkg())
	m.Typ = cv.Type(o.Type())
	return m
}

func (cv *Conv) tuple(t *types.Tuple) *MTuple {
	if t == nil {
		return nil
	}
	mt := &MTuple{}
	for i := 0; i < t.Len(); i++ {
		mt.Vars = append(mt.Vars, cv.Obj(t.At(i)))
	}
	return mt
}

func (cv *Conv) Type(t types.Type) *MType {
	if t == nil {
		return nil
	}
	if m, ok := cv.types[t]; ok {
		return m
	}
	m := &MType{}
	cv.types[t] = m
	switch x := t.(type) {
	case *types.Basic:
		m.K, m.Basic = "Basic", x
	case *types.Named:
		m.K = "Named"
		m.Obj = cv.Obj(x.Obj())
		m.Under = cv.Type(x.Underlying())
		if ta := x.TypeArgs(); ta != nil && ta.Len() > 0 {
			m.TArgs = &MTypeList{}
			for i := 0; i < ta.Len(); i++ {
				m.TArgs.Ts = append(m.TArgs.Ts, cv.Type(ta.At(i)))
			}
		}
		if tp := x.TypeParams(); tp != nil && tp.Len() > 0 {
			m.TParams = &MTypeList{}
			for i := 0; i < tp.Len(); i++ {
				m.TParams.Ts = append(m.TParams.Ts, cv.Type(tp.At(i)))
			}
		}
	case *types.Alias:
		m.K = "Alias"
		m.Obj = cv.Obj(x.Obj())
		m.Under = cv.Type(x.Rhs())
		if ta := x.TypeArgs(); ta != nil && ta.Len() > 0 {
			m.TArgs = &MTypeList{}
			for i := 0; i < ta.Len(); i++ {
				m.TArgs.Ts = append(m.TArgs.Ts, cv.Type(ta.At(i)))
			}
		}
	case *types.TypeParam:
		m.K = "TypeParam"
		m.Obj = &MObj{Kind: "TypeName", Name: cv.ex.C.StrC(x.Obj().Name()), Pkg: cv.Pkg(x.Obj().Pkg()), Typ: m, Tag: x.Obj().Name()}
		if cv.NameOf != nil {
			if tt := cv.NameOf(x.Obj()); tt != nil {
				m.Obj.Name = tt
			}
		}
		m.Constraint = cv.Type(x.Constraint())
	case *types.Pointer:
		m.K, m.Elem = "Pointer", cv.Type(x.Elem())
	case *types.Slice:
		m.K, m.Elem = "Slice", cv.Type(x.Elem())
	case *types.Array:
		m.K, m.Elem, m.ArrLen = "Array", cv.Type(x.Elem()), x.Len()
	case *types.Map:
		m.K, m.Key, m.Elem = "Map", cv.Type(x.Key()), cv.Type(x.Elem())
	case *types.Chan:
		m.K, m.Elem, m.Dir = "Chan", cv.Type(x.Elem()), x.Dir()
	case *types.Signature:
		m.K = "Signature"
		m.Params, m.Results = cv.tuple(x.Params()), cv.tuple(x.Results())
		if m.Params == nil {
			m.Params = &MTuple{}
		}
		if m.Results == nil {
			m.Results = &MTuple{}
		}
		m.Variadic = cv.ex.C.BoolC(x.Variadic())
	case *types.Struct:
		m.K = "Struct"
		for i := 0; i < x.NumFields(); i++ {
			m.Fields = append(m.Fields, cv.Obj(x.Field(i)))
		}
	case *types.Interface:
		m.K = "Interface"
		m.Implicit = x.IsImplicit()
		if x == types.Universe.Lookup("any").Type().Underlying() {
			m.Tag = "any"
		}
		for i := 0; i < x.NumExplicitMethods(); i++ {
			m.Methods = append(m.Methods, cv.Obj(x.ExplicitMethod(i)))
		}
		for i := 0; i < x.NumEmbeddeds(); i++ {
			m.Embeds = append(m.Embeds, cv.Type(x.EmbeddedType(i)))
		}
		for i := 0; i < x.NumMethods(); i++ {
			m.AllMethods = append(m.AllMethods, cv.Obj(x.Method(i)))
		}
	case *types.Union:
		m.K = "Union"
		for i := 0; i < x.Len(); i++ {
			m.Terms = append(m.Terms, &MTerm{Tilde: x.Term(i).Tilde(), T: cv.Type(x.Term(i).Type())})
		}
	case *types.Tuple:
		m.K = "Tuple"
		m.Params = cv.tuple(x)
	default:
		cv.ex.Inconclusive(fmt.Sprintf("model conversion of type %T", t))
	}
	return m
}

// Scope converts a package scope (type names only).
func (cv *Conv) Scope(p *types.Package) *MScope {
	sc := &MScope{}
	names := p.Scope().Names()
	sort.Strings(names)
	for _, n := range names {
		o := p.Scope().Lookup(n)
		switch o.(type) {
		case *types.TypeName, *types.Var, *types.Func:
			mo := cv.Obj(o)
			sc.Names = append(sc.Names, mo.Name)
			sc.Objs = append(sc.Objs, mo)
		}
	}
	return sc
}

// UniverseScope: the model of go/types.Universe (type names only), built from the real one.
func UniverseScope(ex *exec.Exec) *MScope {
	cv := NewConv(ex)
	sc := &MScope{}
	for _, n := range types.Universe.Names() {
		o := types.Universe.Lookup(n)
		if tn, ok := o.(*types.TypeName); ok {
			mo := cv.Obj(tn)
			sc.Names = append(sc.Names, mo.Name)
			sc.Objs = append(sc.Objs, mo)
		}
	}
	return sc
}
