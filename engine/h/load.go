// Package h holds the loader, the harnesses and the evidence writer.
package h

import (
	"fmt"
	"os"
	"strings"
	"sync"
	"time"

	"moqsym/exec"
	"moqsym/smt"

	"golang.org/x/tools/go/packages"
	"golang.org/x/tools/go/ssa"
	"golang.org/x/tools/go/ssa/ssautil"
)

const ModPath = "github.com/matryer/moq"

// Repo is the SSA of the repository's current working tree.
type Repo struct {
	Dir      string
	Prog     *ssa.Program
	Pkgs     map[string]*ssa.Package
	PP       []*packages.Package
	LoadTime time.Duration
	mu       sync.Mutex
}

func goEnv() []string {
	env := os.Environ()
	env = append(env, "GOFLAGS=-mod=mod", "GOPROXY=off")
	return env
}

// Load type-checks dir and builds SSA for the packages of the module found there.
func Load(dir string, patterns ...string) (*Repo, error) {
	t0 := time.Now()
	cfg := &packages.Config{Mode: packages.LoadAllSyntax, Dir: dir, Env: goEnv()}
	pkgs, err := packages.Load(cfg, patterns...)
	if err != nil {
		return nil, err
	}
	var errs []string
	packages.Visit(pkgs, nil, func(p *packages.Package) {
		for _, e := range p.Errors {
			errs = append(errs, e.Error())
		}
	})
	if len(errs) > 0 {
		return nil, fmt.Errorf("package errors: %s", strings.Join(errs, "; "))
	}
	prog, _ := ssautil.AllPackages(pkgs, ssa.BuilderMode(0))
	r := &Repo{Dir: dir, Prog: prog, Pkgs: map[string]*ssa.Package{}, PP: pkgs}
	for _, p := range prog.AllPackages() {
		r.Pkgs[p.Pkg.Path()] = p
	}
	for _, p := range pkgs {
		if sp := prog.Package(p.Types); sp != nil {
			sp.Build()
		}
	}
	r.LoadTime = time.Since(t0)
	return r, nil
}

// IsModulePkg reports whether a package is one of those given to Load (interpreted from SSA).
func (r *Repo) IsModulePkg(p *ssa.Package) bool {
	for _, pp := range r.PP {
		if pp.Types == p.Pkg {
			return true
		}
	}
	return false
}

// NewWorld creates a solver context with the standard stubs and runs the package initialisers.
func (r *Repo) NewWorld(solver string, timeoutS int) (*exec.World, error) {
	ctx := smt.NewCtx()
	s, err := smt.NewSolver(solver, ctx, timeoutS)
	if err != nil {
		return nil, err
	}
	w := &exec.World{
		Prog: r.Prog, C: ctx, S: s, Stubs: exec.BaseStubs(),
		ModulePkg: r.IsModulePkg,
		Globals:   map[*ssa.Global]exec.Loc{}, GlobalGen: map[string]func(ex *exec.Exec) exec.Value{},
	}
	return w, nil
}

// RunInits executes the init functions of the loaded module packages (package-level tables).
func (r *Repo) RunInits(w *exec.World) error {
	var failure string
	for _, pp := range r.PP {
		sp := r.Prog.Package(pp.Types)
		if sp == nil {
			continue
		}
		initFn := sp.Func("init")
		st := w.Explore(func(ex *exec.Exec) {
			ex.CallFn(initFn, nil, nil)
		})
		if len(st.Inconclusive) > 0 {
			failure += fmt.Sprintf("init of %s: %v; ", pp.PkgPath, st.Inconclusive)
		}
		if st.Paths != 1 {
			failure += fmt.Sprintf("init of %s forked into %d paths; ", pp.PkgPath, st.Paths)
		}
	}
	if failure != "" {
		return fmt.Errorf("%s", failure)
	}
	return nil
}

// Fn finds a package-level function.
func (r *Repo) Fn(pkg, name string) *ssa.Function {
	p := r.Pkgs[pkg]
	if p == nil {
		panic("package not loaded: " + pkg)
	}
	f := p.Func(name)
	if f == nil {
		panic("function not found: " + pkg + "." + name)
	}
	return f
}

// Method finds a method of a named type (pointer or value receiver).
func (r *Repo) Method(pkg, typ, name string) *ssa.Function {
	p := r.Pkgs[pkg]
	if p == nil {
		panic("package not loaded: " + pkg)
	}
	tn := p.Type(typ)
	if tn == nil {
		panic("type not found: " + pkg + "." + typ)
	}
	r.mu.Lock()
	defer r.mu.Unlock()
	for _, t := range []interface {
		String() string
	}{} {
		_ = t
	}
	T := tn.Type()
	ms := r.Prog.MethodSets.MethodSet(T)
	if sel := ms.Lookup(p.Pkg, name); sel != nil {
		return r.Prog.MethodValue(sel)
	}
	ms = r.Prog.MethodSets.MethodSet(ptrTo(T))
	if sel := ms.Lookup(p.Pkg, name); sel != nil {
		return r.Prog.MethodValue(sel)
	}
	panic("method not found: " + pkg + "." + typ + "." + name)
}
