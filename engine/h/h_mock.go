package h

import (
	"fmt"
	"go/types"

	"moqsym/exec"
	"moqsym/smt"
)

// WriterObj is the io.Writer handed to Mocker.Mock; every Write is an event with a symbolic outcome.
type WriterObj struct{ Name string }

func (w *WriterObj) Invoke(ex *exec.Exec, method string, args []exec.Value) exec.Value {
	if method != "Write" {
		ex.Inconclusive("io.Writer." + method)
	}
	ex.Emit("Write", w.Name, args[0])
	fail := ex.C.Fresh("fault_write", smt.Bool)
	if noFaults(ex) {
		ex.AssumeNoCheck(ex.C.Not(fail))
	}
	if ex.Branch(fail) {
		n := ex.C.Fresh("short_write_n", smt.Int)
		return exec.Tuple{n, ex.NewError(ex.C.StrC("write failed"), "write")}
	}
	var n *smt.Term = ex.C.IntC(0)
	if b, ok := args[0].(exec.Bytes); ok {
		n = ex.C.Len(b.S)
	}
	return exec.Tuple{n, exec.Iface{}}
}

var writerType = types.NewPointer(types.NewNamed(types.NewTypeName(0, nil, "engineWriter", nil), types.NewStruct(nil, nil), nil))

func writerVal(name string) exec.Value { return exec.Iface{T: writerType, V: &WriterObj{Name: name}} }

// bufKey identifies a bytes.Buffer by its location.
func bufContent(ex *exec.Exec, p exec.Value) exec.Value {
	if v, ok := ex.User[fmt.Sprintf("buf:%p", p)]; ok {
		return v
	}
	return exec.Bytes{S: ex.C.StrC("")}
}

// MockEnvStubs: contracts of the environment of Mocker.Mock.
func MockEnvStubs() map[string]exec.Stub {
	st := map[string]exec.Stub{}
	st["(*text/template.Template).Execute"] = func(ex *exec.Exec, c *exec.CallInfo) exec.Value {
		ex.Emit("Execute", "", c.Args[2])
		fail := ex.C.Fresh("fault_execute", smt.Bool)
		if noFaults(ex) {
			ex.AssumeNoCheck(ex.C.Not(fail))
		}
		if ex.Branch(fail) {
			return ex.NewError(ex.C.StrC("template: exec failed"), "execute")
		}
		// the rendered text is an uninterpreted function of the data (one Execute per run)
		out := ex.C.Fresh("T_of_data", smt.String)
		w := c.Args[1].(exec.Iface)
		ex.User[fmt.Sprintf("buf:%p", w.V)] = exec.Bytes{S: out}
		ex.User["tmplData"] = c.Args[2].(exec.Iface).V
		ex.User["tmplOut"] = out
		return exec.Iface{}
	}
	st["(*bytes.Buffer).Bytes"] = func(ex *exec.Exec, c *exec.CallInfo) exec.Value { return bufContent(ex, c.Args[0]) }
	format := func(uf, fault string) exec.Stub {
		return func(ex *exec.Exec, c *exec.CallInfo) exec.Value {
			src := c.Args[len(c.Args)-1]
			if uf == "I" {
				src = c.Args[1]
			}
			b, ok := src.(exec.Bytes)
			if !ok {
				ex.Inconclusive(fmt.Sprintf("formatter input is %T", src))
			}
			ex.Emit("Format:"+uf, "", src)
			fail := ex.C.Fresh(fault, smt.Bool)
			if noFaults(ex) {
				ex.AssumeNoCheck(ex.C.Not(fail))
			}
			if ex.Branch(fail) {
				return exec.Tuple{exec.Slice{}, ex.NewError(ex.C.StrC(uf+" failed"), "format")}
			}
			return exec.Tuple{exec.Bytes{S: ex.C.UF(uf, []string{smt.String}, smt.String, b.S)}, exec.Iface{}}
		}
	}
	st["go/format.Source"] = format("G", "fault_gofmt")
	st["golang.org/x/tools/imports.Process"] = format("I", "fault_goimports")
	return st
}

// mockShapeSrc is the source package of H.mock (names of the scope objects become symbolic).
const mockShapeDep = `package q
type T struct{}
type Key string
type Page[T any] struct{ Items []T }
type Integer interface{ ~int | ~int8 | ~int16 }
`

// a third dependency that some signatures reach only through the type argument of an instantiation
const mockShapeDep3 = `package w
type T struct{}
`

// a second dependency with the SAME package name, reached only through an embedded interface of a
// helper package, so that the source file has no alias for it (Appendix B of DESIGN.md)
const mockShapeDep2 = `package q
type T struct{}
`
const mockShapeHelper = `package h
import "src.example/r/q"
type J interface { Zed(x q.T) }
`
const mockShapeSrc = `package src
import (
	"src.example/p/q"
	"src.example/h"
	"src.example/w"
)
type I1 interface { M0(); M1(a q.T, b int) error; M2(first q.T, rest ...q.T); M3(chunks ...[]q.T) []q.T }
type I2 interface {}
type G[T any] interface { Get(k T) T }
type S struct{}
type L interface { Do(x S) }
type K interface { h.J }
type AG = G[int]
type Cmp[T any] interface { Less(o T) bool }
type SO[T Cmp[T]] interface { Min() T }
type UID string
type Repo[K interface{ UID }, V any] interface { Load(id K) (V, error) }
type CK[K comparable, V any] interface { Snap() map[K]V }
type St[T any] interface { Fetch(id string) (T, error) }
type U1 struct{}
type O1 struct{}
type US interface { St[U1] }
type OS interface { St[O1] }
type Cons interface {
	C1(m map[string]q.T)
	C2(c chan q.T)
	C3(f func(q.T) error)
	C4(s struct{ F q.T })
	C5(a [2]q.T)
	C6(p **q.T)
	C7(i interface{ Do(x q.T) })
	C8(v ...func() q.T)
	C9(g G[q.T]) map[q.T][]chan *q.T
}
type Nest interface {
	N1(m map[q.Key]q.Page[w.T])
	N2(p q.Page[q.Page[*w.T]]) q.Key
}
type Sh[K interface{ q.Integer; ~int8 | ~int16 }, V any] interface { Put(k K, v V) }
type Ky[K interface{ comparable; ~int | ~string }] interface { Has(k K) bool }
`

type mockSetup struct {
	tm                 *TM
	cv                 *Conv
	reg                *exec.StructLoc
	mocker             *exec.StructLoc
	src                *MPkg
	srcPath            *smt.Term
	srcName            *smt.Term
	pkgName            *smt.Term
	fmtr               *smt.Term
	stub, skip, resets *smt.Term
	moqPath            *smt.Term
	names              map[string]*smt.Term
	objs               map[string]*MObj
	mode               string
}

// buildMocker constructs a Mocker over a model source package.
// mode: "same" (moqPkgPath = srcPkgPath), "unknown" (moqPkgPath = ""), "other" (a different path).
func buildMocker(ex *exec.Exec, env *Env, pkgs map[string]*types.Package, mode string, bound int, fixedCfg, witnessRun bool) *mockSetup {
	c := ex.C
	repo := env.Repo
	tm := NewTM(repo)
	ex.User["tm"] = tm
	ms := &mockSetup{tm: tm, names: map[string]*smt.Term{}, objs: map[string]*MObj{}, mode: mode}
	ms.srcName = symIdent(ex, "srcPkgName", bound)
	ex.AssumeNoCheck(c.Not(c.Eq(ms.srcName, c.StrC("_"))))
	ex.AssumeDomain(notKeyword(ex, ms.srcName))
	if kf := env.KF.Open("C19", "mock:source-package-named-sync"); kf != nil && !witnessRun {
		// known finding: excluded from the main obligation, re-established by its own witness instance
		ex.AssumeNoCheck(c.Not(c.Eq(ms.srcName, c.StrC("sync"))))
	}
	// import paths and the dependency's name are concrete here: the registry's path logic is the
	// subject of H.imports/H.vars, not of this harness
	ms.srcPath = c.StrC("src.example/src")
	qpath := c.StrC("src.example/p/q")
	qname := c.StrC("q")
	cv := NewConv(ex)
	ms.cv = cv
	cv.PkgOf = func(p *types.Package) *MPkg {
		switch p.Path() {
		case "src.example/src":
			return &MPkg{Name: ms.srcName, Path: ms.srcPath, Tag: "src"}
		case "src.example/p/q":
			return &MPkg{Name: qname, Path: qpath, Tag: "q"}
		case "src.example/r/q":
			return &MPkg{Name: c.StrC("q"), Path: c.StrC("src.example/r/q"), Tag: "q2"}
		case "src.example/w":
			return &MPkg{Name: c.StrC("w"), Path: c.StrC("src.example/w"), Tag: "w"}
		}
		return nil
	}
	srcT := pkgs["src.example/src"]
	var scopeNames []*smt.Term
	cv.NameOf = func(o types.Object) *smt.Term {
		if tn, ok := o.(*types.TypeName); ok && o.Pkg() == srcT && o.Parent() == srcT.Scope() {
			if t, ok := ms.names[tn.Name()]; ok {
				return t
			}
			t := symIdent(ex, "name_"+tn.Name(), bound)
			ex.AssumeNoCheck(c.Not(c.Eq(t, c.StrC("_"))))
			ex.AssumeDomain(notKeyword(ex, t))
			for _, imp := range []string{"q", "h", "w"} { // package-level names differ from the file's import names (Go)
				ex.AssumeNoCheck(c.Not(c.Eq(t, c.StrC(imp))))
			}
			ms.names[tn.Name()] = t
			scopeNames = append(scopeNames, t)
			return t
		}
		return nil
	}
	ms.src = cv.Pkg(srcT)
	ms.src.Scope = cv.Scope(srcT)
	if light, _ := ex.User["lightScope"].(bool); light {
		// the light variant keeps five objects of the model package in scope
		keep := map[string]bool{"I1": true, "I2": true, "G": true, "S": true, "L": true}
		sc := &MScope{}
		for i, o := range ms.src.Scope.Objs {
			if keep[o.Tag] {
				sc.Names = append(sc.Names, ms.src.Scope.Names[i])
				sc.Objs = append(sc.Objs, o)
			}
		}
		ms.src.Scope = sc
	}
	for i, o := range ms.src.Scope.Objs {
		_ = i
		ms.objs[o.Tag] = o
	}
	ex.AssumeNoCheck(c.Distinct(scopeNames...))
	switch mode {
	case "same":
		ms.moqPath = ms.srcPath
	case "unknown":
		ms.moqPath = c.StrC("")
	case "other":
		ms.moqPath = c.StrC("src.example/src/dstpkg")
	}
	ms.reg = newRegistry(ex, repo, RegistryCfg{SrcPkgName: ms.srcName, SrcPkg: ms.src, MoqPkgPath: ms.moqPath})
	ms.pkgName = c.Var("cfg_PkgName", smt.String)
	ms.fmtr = c.Var("cfg_Formatter", smt.String)
	ms.stub, ms.skip, ms.resets = c.Var("cfg_StubImpl", smt.Bool), c.Var("cfg_SkipEnsure", smt.Bool), c.Var("cfg_WithResets", smt.Bool)
	if fixedCfg {
		// multi-argument instances fix the options that only multiply paths
		ms.fmtr = c.StrC("")
		if mode == "same" {
			ms.pkgName = c.StrC("")
		} else {
			ms.pkgName = c.StrC("dstpkg")
			ex.AssumeNoCheck(c.Not(c.Eq(ms.srcName, ms.pkgName)))
		}
	}
	mt := repo.named(pkgMoq, "Mocker")
	ct := repo.named(pkgMoq, "Config")
	cfgV := ex.Zero(ct).(*exec.Struct)
	cfgV.F[fieldIndex(ct, "PkgName")] = ms.pkgName
	cfgV.F[fieldIndex(ct, "Formatter")] = ms.fmtr
	cfgV.F[fieldIndex(ct, "StubImpl")] = ms.stub
	cfgV.F[fieldIndex(ct, "SkipEnsure")] = ms.skip
	cfgV.F[fieldIndex(ct, "WithResets")] = ms.resets
	cfgV.F[fieldIndex(ct, "SrcDir")] = c.Var("cfg_SrcDir", smt.String)
	// the Mocker is built by the real moq.New (from SSA), so that whatever New initialises is
	// initialised here too; only package loading (registry.New) and template parsing are replaced
	_ = mt
	newFn := repo.Fn(pkgMoq, "New")
	saved := ex.LocalStubs
	ex.LocalStubs = map[string]exec.Stub{
		pkgRegistry + ".New": func(ex *exec.Exec, c *exec.CallInfo) exec.Value { return exec.Tuple{ms.reg, exec.Iface{}} },
		pkgTemplate + ".New": func(ex *exec.Exec, c *exec.CallInfo) exec.Value {
			return exec.Tuple{ex.Zero(repo.named(pkgTemplate, "Template")), exec.Iface{}}
		},
	}
	r, pan := ex.CallCatch(newFn, []exec.Value{cfgV})
	ex.LocalStubs = saved
	if pan != nil {
		ex.Inconclusive("moq.New panics while the harness builds the Mocker: " + pan.Msg)
	}
	loc, ok := r.(exec.Tuple)[0].(*exec.StructLoc)
	if !ok {
		ex.Inconclusive("moq.New did not return a Mocker")
	}
	ms.mocker = loc
	return ms
}

// tmplData reads back the Data struct handed to the template.
type tData struct {
	PkgName, SrcPkgQualifier     *smt.Term
	StubImpl, SkipEnsure, Resets *smt.Term
	Imports                      []impEntry
	Mocks                        []tMock
}
type tMock struct {
	InterfaceName, MockName *smt.Term
	Methods                 []tMethod
	TypeParams              []tParam
}
type tMethod struct {
	Raw             exec.Value
	Name            *smt.Term
	Params, Returns []tParam
}
type tParam struct {
	Var        *exec.StructLoc
	Vr         *MObj
	Name       *smt.Term
	Variadic   *smt.Term
	Constraint exec.Value
}

func readParam(ex *exec.Exec, repo *Repo, v exec.Value) tParam {
	pt := repo.named(pkgTemplate, "ParamData")
	vt := repo.named(pkgRegistry, "Var")
	s := v.(*exec.Struct)
	p := tParam{Variadic: s.F[fieldIndex(pt, "Variadic")].(*smt.Term)}
	if vl, ok := s.F[fieldIndex(pt, "Var")].(*exec.StructLoc); ok {
		p.Var = vl
		p.Name = vl.F[fieldIndex(vt, "Name")].Load(ex).(*smt.Term)
		p.Vr, _ = vl.F[fieldIndex(vt, "vr")].Load(ex).(*MObj)
	}
	return p
}

func readData(ex *exec.Exec, repo *Repo, v exec.Value) *tData {
	dt := repo.named(pkgTemplate, "Data")
	mt := repo.named(pkgTemplate, "MockData")
	me := repo.named(pkgTemplate, "MethodData")
	tp := repo.named(pkgTemplate, "TypeParamData")
	pt := repo.named(pkgRegistry, "Package")
	s := v.(*exec.Struct)
	d := &tData{
		PkgName:         s.F[fieldIndex(dt, "PkgName")].(*smt.Term),
		SrcPkgQualifier: s.F[fieldIndex(dt, "SrcPkgQualifier")].(*smt.Term),
		StubImpl:        s.F[fieldIndex(dt, "StubImpl")].(*smt.Term),
		SkipEnsure:      s.F[fieldIndex(dt, "SkipEnsure")].(*smt.Term),
		Resets:          s.F[fieldIndex(dt, "WithResets")].(*smt.Term),
	}
	for _, iv := range ex.SliceElems(s.F[fieldIndex(dt, "Imports")]) {
		pl := iv.(*exec.StructLoc)
		e := impEntry{Loc: pl, Alias: pl.F[fieldIndex(pt, "Alias")].Load(ex).(*smt.Term)}
		e.Pkg, _ = pl.F[fieldIndex(pt, "pkg")].Load(ex).(*MPkg)
		d.Imports = append(d.Imports, e)
	}
	for _, mv := range ex.SliceElems(s.F[fieldIndex(dt, "Mocks")]) {
		m := mv.(*exec.Struct)
		tmk := tMock{InterfaceName: m.F[fieldIndex(mt, "InterfaceName")].(*smt.Term), MockName: m.F[fieldIndex(mt, "MockName")].(*smt.Term)}
		for _, mdv := range ex.SliceElems(m.F[fieldIndex(mt, "Methods")]) {
			md := mdv.(*exec.Struct)
			tme := tMethod{Raw: md, Name: md.F[fieldIndex(me, "Name")].(*smt.Term)}
			for _, pv := range ex.SliceElems(md.F[fieldIndex(me, "Params")]) {
				tme.Params = append(tme.Params, readParam(ex, repo, pv))
			}
			for _, pv := range ex.SliceElems(md.F[fieldIndex(me, "Returns")]) {
				tme.Returns = append(tme.Returns, readParam(ex, repo, pv))
			}
			tmk.Methods = append(tmk.Methods, tme)
		}
		if tps, ok := m.F[fieldIndex(mt, "TypeParams")].(exec.Slice); ok && tps.Arr != nil {
			for _, tv := range ex.SliceElems(tps) {
				ts := tv.(*exec.Struct)
				p := readParam(ex, repo, ts.F[fieldIndex(tp, "ParamData")])
				p.Constraint = ts.F[fieldIndex(tp, "Constraint")]
				tmk.TypeParams = append(tmk.TypeParams, p)
			}
		}
		d.Mocks = append(d.Mocks, tmk)
	}
	return d
}

func eventsOf(ex *exec.Exec, kind string) []exec.Event {
	var out []exec.Event
	for _, e := range ex.Events {
		if e.Kind == kind || (len(kind) > 0 && kind[len(kind)-1] == ':' && len(e.Kind) >= len(kind) && e.Kind[:len(kind)] == kind) {
			out = append(out, e)
		}
	}
	return out
}

// refPair is the reference of parseInterfaceName.
func refPair(ex *exec.Exec, np *smt.Term) (*smt.Term, *smt.Term) {
	c := ex.C
	colon := c.StrC(":")
	idx := c.IndexOf(np, colon, c.IntC(0))
	has := c.Contains(np, colon)
	return c.Ite(has, c.Substr(np, c.IntC(0), idx), np),
		c.Ite(has, c.Substr(np, c.Add(idx, c.IntC(1)), c.Len(np)), c.Concat(np, c.StrC("Mock")))
}

// HMock executes (*Mocker).Mock for k symbolic arguments over a model source package.
// It serves C17 (all-or-nothing), C20 (one mock per argument), C16 (formatter data flow),
// C08 (flag plumbing), C10 (source-package import rule), C11 (sync rule), C02 (method list).
func HMock(props ...string) *Harness {
	variant := "light"
	if len(props) > 0 {
		variant = props[0]
	}
	hh := &Harness{
		ID:  "H.mock/" + variant,
		Doc: "(*Mocker).Mock from SSA: k symbolic 'iface[:mock]' arguments, model source package, symbolic faults in template/formatter/writer",
		Funcs: []string{"pkg/moq.(*Mocker).Mock", "pkg/moq.parseInterfaceName", "pkg/moq.(*Mocker).methodData", "pkg/moq.(*Mocker).typeParams",
			"pkg/moq.explicitConstraintType", "pkg/moq.(*Mocker).mockPkgName", "pkg/moq.(*Mocker).format", "pkg/moq.gofmt", "pkg/moq.goimports",
			"internal/registry.(Registry).LookupInterface", "internal/registry.(*Registry).AddImport", "internal/registry.(*MethodScope).AddVar", "internal/registry.(Registry).Imports",
			"internal/template.(Data).MocksSomeMethod", "internal/template.(Template).Execute"},
		Assumptions: []string{
			"text/template Execute is an uninterpreted function T(data) with a symbolic failure flag; it writes only to the buffer it is given",
			"go/format.Source and imports.Process are uninterpreted functions G, I with symbolic failure flags",
			"the io.Writer given to Mock fails or succeeds nondeterministically on each call",
			"source package = model scope with 7 objects (interfaces incl. a variadic method, an empty one, a generic one, one using a local type, one embedding an interface of a helper package that brings in a second package named like the first, an alias of an instantiated generic interface, and a struct) whose names are symbolic and pairwise distinct",
		},
		Outside: []string{"more than 3 interface arguments", "names longer than the bound", "what text/template does with the data (L2)"},
		Confirm: mockConfirm,
	}
	hh.Instances = func(env *Env) []Instance {
		maxK, bound := 2, 6
		if env.Tier == "thorough" {
			maxK, bound = 3, 8
		}
		hh.Bounds = []string{fmt.Sprintf("k ≤ %d arguments (symbolic strings), identifiers ≤ %d chars, destination modes {same, unknown, other}; k = 1: every object of the model package is a candidate; k ≥ 2: candidates restricted to five focus groups of interacting objects; k = 3 on the light scope only; fixed formatter and -pkg", maxK, bound)}
		pkgs, _, err := TypeCheck([]SrcPkg{{"src.example/p/q", mockShapeDep}, {"src.example/r/q", mockShapeDep2}, {"src.example/w", mockShapeDep3}, {"src.example/h", mockShapeHelper}, {"src.example/src", mockShapeSrc}})
		if err != nil {
			panic(err)
		}
		var out []Instance
		// with one argument every object of the model package is a candidate; with several arguments the
		// candidates are restricted to focus groups (objects whose interaction matters), stated in the bounds
		focusGroups := map[string][]string{
			"conflicting-imports": {"I1", "K", "S"},
			"instantiations":      {"US", "OS", "St"},
			"generics":            {"G", "AG", "CK"},
			"constraints":         {"L", "SO", "Repo", "I2"},
			"type-constructors":   {"Cons", "I1"},
		}
		for k := 0; k <= maxK; k++ {
			for _, mode := range []string{"same", "unknown", "other"} {
				if k == 0 && mode != "same" {
					continue
				}
				if k >= 2 && variant == "full" && mode == "unknown" {
					continue // behaves like "other" for everything the full variant checks
				}
				groups := []string{""}
				if k >= 2 && variant == "full" {
					groups = sortedKeys(focusGroups)
				}
				if k >= 3 && variant == "full" {
					continue // three arguments are explored on the light scope only (the full scope at k = 3 needs > 10 GB)
				}
				for _, g := range groups {
					k, mode, g := k, mode, g
					name := fmt.Sprintf("k=%d,dest=%s", k, mode)
					if g != "" {
						name += ",focus=" + g
					}
					out = append(out, Instance{Name: name, Run: func(ic *IC) *exec.Stats {
						ic.StrBound = bound
						ic.MaxPaths = 60000 // termination guard of the thorough tier: hitting it is reported as inconclusive
						fn := env.Repo.Method(pkgMoq, "Mocker", "Mock")
						st := ic.Explore(func(ex *exec.Exec) {
							ex.User["focus"] = focusGroups[g]
							ex.User["lightScope"] = variant == "light"
							ex.User["fullVariant"] = variant == "full"
							runMock(ic, ex, env, fn, pkgs, k, mode, bound, false)
						})
						mockUnwinding(ic, st, k, mode)
						return st
					}})
				}
			}
		}
		if kf := env.KF.Open("C19", "mock:source-package-named-sync"); kf != nil {
			out = append(out, Instance{Name: "known-finding-witness:source-package-named-sync", Run: func(ic *IC) *exec.Stats {
				ic.StrBound = bound
				fn := env.Repo.Method(pkgMoq, "Mocker", "Mock")
				st := ic.Explore(func(ex *exec.Exec) {
					ex.User["kfWitness"] = true
					runMock(ic, ex, env, fn, pkgs, 1, "other", bound, true)
				})
				ok, detail := env.checkWitness(kf)
				if len(st.Unwinding) > 0 && ok {
					if kf.concerns(env.Prop) {
						ic.known(kf.What)
					}
				} else {
					ic.note(fmt.Sprintf("known finding %q no longer reproduces (symbolic witness: %d unwinding failures; recorded CLI witness reproduced: %v %s) — close the entry", kf.Class, len(st.Unwinding), ok, detail))
				}
				st.Unwinding = nil
				return st
			}})
		}
		return out
	}
	return hh
}

func isNilIface(v exec.Value) bool {
	iv, ok := v.(exec.Iface)
	return ok && iv.T == nil
}

func errMsg(ex *exec.Exec, v exec.Value) *smt.Term {
	iv := v.(exec.Iface)
	if inv, ok := iv.V.(exec.Invoker); ok {
		return inv.Invoke(ex, "Error", nil).(*smt.Term)
	}
	return ex.C.StrC("<error>")
}

// faultsTaken lists the symbolic fault flags that are true on this path.
func faultsTaken(ex *exec.Exec) []string {
	var out []string
	for _, p := range ex.PC {
		if p.Op == "var" && len(p.Name) > 6 && p.Name[:6] == "fault_" {
			out = append(out, p.Name)
		}
	}
	return out
}

func runMock(ic *IC, ex *exec.Exec, env *Env, fn exec.Value, pkgs map[string]*types.Package, k int, mode string, bound int, witnessRun bool) {
	c := ex.C
	repo := env.Repo
	full, _ := ex.User["fullVariant"].(bool)
	ms := buildMocker(ex, env, pkgs, mode, bound, k > 1 || full, witnessRun)
	if witnessRun {
		ex.AssumeNoCheck(c.Eq(ms.srcName, c.StrC("sync")))
		ex.AssumeNoCheck(c.Eq(ms.skip, c.False()))
	}
	var nps []*smt.Term
	for i := 0; i < k; i++ {
		nps = append(nps, c.Var(fmt.Sprintf("arg%d", i), smt.String))
	}
	if full {
		// mock naming ('Iface:Name') is the light variant's subject
		for _, np := range nps {
			ex.AssumeNoCheck(c.Not(c.Contains(np, c.StrC(":"))))
		}
	}
	if focus, _ := ex.User["focus"].([]string); len(focus) > 0 {
		// each argument names one of the focus objects or nothing at all
		for _, np := range nps {
			iname, _ := refPair(ex, np)
			alts := []*smt.Term{}
			for _, f := range focus {
				alts = append(alts, c.Eq(iname, ms.names[f]))
			}
			var none []*smt.Term
			for tag, t := range ms.names {
				if _, ok := ms.objs[tag]; ok {
					none = append(none, c.Not(c.Eq(iname, t)))
				}
			}
			alts = append(alts, c.And(none...))
			ex.AssumeNoCheck(c.Or(alts...))
		}
	}
	w := writerVal("w")
	ret, pan := ex.CallCatch(fn, []exec.Value{ms.mocker, w, ex.StrSliceOf(nps...)})
	if pan != nil {
		ex.Fail("C19: Mocker.Mock panics: " + pan.Msg)
		return
	}
	err := ret
	failed := !isNilIface(err)
	writes := eventsOf(ex, "Write")
	execs := eventsOf(ex, "Execute")
	fmts := eventsOf(ex, "Format:")
	faults := faultsTaken(ex)
	ic.Witness(ex, func(m map[string]string) any {
		return map[string]any{"model": m, "returned_error": failed, "write_events": len(writes), "faults": faults}
	})

	// reference: which scope object each argument names
	ifaceObjs := []string{"I1", "I2", "G", "L", "K", "AG", "SO", "Cmp", "Repo", "CK", "St", "US", "OS", "Cons", "Nest", "Sh", "Ky"}
	{
		var present []string
		for _, n := range ifaceObjs {
			if _, ok := ms.objs[n]; ok {
				present = append(present, n)
			}
		}
		ifaceObjs = present
	}
	var wantI, wantM []*smt.Term
	var found []*smt.Term
	for _, np := range nps {
		a, b := refPair(ex, np)
		wantI, wantM = append(wantI, a), append(wantM, b)
		var alts []*smt.Term
		for _, n := range ifaceObjs {
			alts = append(alts, c.Eq(a, ms.names[n]))
		}
		found = append(found, c.Or(alts...))
	}
	allFound := c.And(found...)

	// ---- C17: all-or-nothing ----
	if len(writes) > 1 {
		ex.Fail("C17: the writer is written to more than once")
	} else {
		ex.Pass("C17: at most one Write on the caller's writer")
	}
	writeFault := false
	for _, f := range faults {
		if len(f) >= 11 && f[:11] == "fault_write" {
			writeFault = true
		}
	}
	if failed {
		if len(writes) > 0 && !writeFault {
			ex.Fail("C17: Mock returns an error although it already wrote to the writer (no write fault injected)")
		} else {
			ex.Pass("C17: failing run wrote nothing (or the failure is the write itself)")
		}
		if len(faults) == 0 {
			msg := errMsg(ex, err)
			if k == 0 {
				ex.Oblige(c.Eq(msg, c.StrC("must specify one interface")), "C19: empty argument list yields its diagnostic")
			} else {
				ex.Oblige(c.Not(allFound), "C17: an error without injected fault means some argument names no interface")
				var alts []*smt.Term
				for i := range nps {
					alts = append(alts, c.Eq(msg, c.Concat(c.StrC("interface not found: "), wantI[i])))
					alts = append(alts, c.And(c.PrefixOf(c.Concat(wantI[i], c.StrC(" (")), msg), c.SuffixOf(c.StrC(") is not an interface"), msg)))
				}
				ex.Oblige(c.Or(alts...), "C19: the diagnostic names the offending type")
			}
		}
		return
	}
	// success
	if k == 0 {
		ex.Fail("C19: Mock succeeds with no interface argument")
		return
	}
	if len(faults) > 0 {
		ex.Fail(fmt.Sprintf("C17: Mock returns nil although a step failed: %v", faults))
	}
	ex.Oblige(allFound, "C17: success only if every argument names an interface")
	if len(writes) != 1 || len(execs) != 1 {
		ex.Fail(fmt.Sprintf("C17: successful run has %d Write and %d Execute events (want 1, 1)", len(writes), len(execs)))
		return
	}
	// ordering: Execute, then format, then Write
	order := ""
	for _, e := range ex.Events {
		switch {
		case e.Kind == "Execute":
			order += "E"
		case len(e.Kind) > 7 && e.Kind[:7] == "Format:":
			order += "F"
		case e.Kind == "Write":
			order += "W"
		}
	}
	if order != "EW" && order != "EFW" {
		ex.Fail("C17: event order is " + order + " (want template, formatter, single write)")
	} else {
		ex.Pass("C17: template and formatter finish before the single Write")
	}
	// ---- C16: formatter data flow ----
	tout, _ := ex.User["tmplOut"].(*smt.Term)
	written, ok := writes[0].Args[0].(exec.Bytes)
	if !ok || tout == nil {
		ex.Fail("C16: written bytes are not derived from the template output")
		return
	}
	G := c.UF("G", []string{smt.String}, smt.String, tout)
	I := c.UF("I", []string{smt.String}, smt.String, tout)
	want := c.Ite(c.Eq(ms.fmtr, c.StrC("goimports")), I, c.Ite(c.Eq(ms.fmtr, c.StrC("noop")), tout, G))
	ex.Oblige(c.Eq(written.S, want), "C16: bytes written = goimports(T) / T / gofmt(T) by formatter name, gofmt for every other value")
	_ = fmts

	// ---- data handed to the template ----
	d := readData(ex, repo, ex.User["tmplData"])
	// C08 / flag plumbing
	ex.Oblige(c.And(c.Eq(d.StubImpl, ms.stub), c.Eq(d.SkipEnsure, ms.skip), c.Eq(d.Resets, ms.resets)), "C08: StubImpl/SkipEnsure/WithResets reach the template unchanged")
	ex.Oblige(c.Eq(d.PkgName, c.Ite(c.Eq(ms.pkgName, c.StrC("")), ms.srcName, ms.pkgName)), "C10: package clause = -pkg or the source package name")
	// C20
	if len(d.Mocks) != k {
		ex.Fail(fmt.Sprintf("C20: %d mocks for %d arguments", len(d.Mocks), k))
		return
	}
	someMethod := false
	usesSrcType := false
	for i := range nps {
		ex.Oblige(c.And(c.Eq(d.Mocks[i].InterfaceName, wantI[i]), c.Eq(d.Mocks[i].MockName, wantM[i])), fmt.Sprintf("C20: mock %d is named as argument %d requests", i, i))
		var obj *MObj
		for _, n := range ifaceObjs {
			if ex.Proves(c.Eq(wantI[i], ms.names[n])) {
				obj = ms.objs[n]
			}
		}
		if obj == nil {
			ex.Fail("C20: cannot determine which interface argument " + fmt.Sprint(i) + " resolved to")
			continue
		}
		if obj.Tag == "L" || obj.Tag == "SO" || obj.Tag == "Repo" || obj.Tag == "US" || obj.Tag == "OS" || obj.Tag == "Cons" { // L's signature and SO's constraint mention a source-package type
			usesSrcType = true
		}
		iface := obj.Typ.Underlying()
		got := d.Mocks[i]
		if len(got.Methods) != len(iface.AllMethods) {
			ex.Fail(fmt.Sprintf("C02: mock %d has %d methods, interface %s has %d", i, len(got.Methods), obj.Tag, len(iface.AllMethods)))
			continue
		}
		okAll := true
		for j, m := range iface.AllMethods {
			someMethod = true
			gm := got.Methods[j]
			if gm.Name != m.Name {
				okAll = false
			}
			sig := m.Typ
			if len(gm.Params) != len(sig.Params.Vars) || len(gm.Returns) != len(sig.Results.Vars) {
				okAll = false
				continue
			}
			for p := range gm.Params {
				if gm.Params[p].Vr != sig.Params.Vars[p] {
					okAll = false
				}
				wantVar := c.False()
				if p == len(gm.Params)-1 && sig.Params.Vars[p].Typ.Underlying().K == "Slice" {
					wantVar = sig.Variadic
				}
				if gm.Params[p].Variadic != wantVar {
					okAll = false
				}
			}
			for p := range gm.Returns {
				if gm.Returns[p].Vr != sig.Results.Vars[p] {
					okAll = false
				}
			}
		}
		ntp := 0
		if nt := obj.Typ; nt.K == "Named" && nt.TParams != nil {
			ntp = len(nt.TParams.Ts)
			for q, tp := range got.TypeParams {
				if q < ntp && (tp.Vr == nil || tp.Vr.Name != nt.TParams.Ts[q].Obj.Name) {
					okAll = false
				}
				if q < ntp && tp.Vr != nil && tp.Vr.Typ != nt.TParams.Ts[q].Constraint {
					ex.Fail(fmt.Sprintf("C09: type parameter %d of mock %d is not declared under the interface's own constraint", q, i))
				}
				if q < ntp {
					checkSelfCheckArg(ex, ms, tp.Constraint, nt.TParams.Ts[q].Constraint, obj.Tag, q)
				}
			}
		}
		if len(got.TypeParams) != ntp {
			okAll = false
		}
		if len(got.TypeParams) != ntp {
			ex.Fail(fmt.Sprintf("C09: mock %d has %d type parameters, the looked-up interface %s has %d", i, len(got.TypeParams), obj.Tag, ntp))
		} else {
			ex.Pass("C09: the mock has the interface's number of type parameters, in order")
		}
		if len(got.Methods) == len(iface.AllMethods) {
			checkSignatures(ex, env, ms, d, got, iface, i)
		}
		if okAll {
			ex.Pass(fmt.Sprintf("C02/C20: mock %d wraps exactly the methods, parameters, results and type parameters of %s, in order", i, obj.Tag))
		} else {
			ex.Fail(fmt.Sprintf("C02/C20: mock %d does not wrap the go/types objects of %s position by position", i, obj.Tag))
		}
	}
	// ---- C11: sync rule; C10: source package rule ----
	hasSync, hasSrc := false, false
	var srcEntry impEntry
	for _, e := range d.Imports {
		if e.Pkg == nil {
			ex.Fail("C11: import entry without package")
			continue
		}
		if e.Pkg.Tag == "NewPackage" {
			if s, ok := exec.ConstStr(e.Pkg.Path); ok && s == "sync" {
				hasSync = true
			}
		}
		if e.Pkg == ms.src {
			hasSrc = true
			srcEntry = e
		}
	}
	if hasSync != someMethod {
		ex.Fail(fmt.Sprintf("C11: sync imported=%v but some mock has a method=%v", hasSync, someMethod))
	} else {
		ex.Pass("C11: sync is imported iff some mock has a method")
	}
	same := c.Or(c.Eq(ms.pkgName, c.StrC("")), c.Eq(ms.pkgName, ms.srcName))
	ex.Oblige(c.Implies(same, c.Eq(d.SrcPkgQualifier, c.StrC(""))), "C10: generated into the source package ⇒ interface named unqualified")
	switch mode {
	case "same":
		if hasSrc {
			ex.Fail("C10: destination path = source path but the source package is imported")
		} else {
			ex.Pass("C10: the file never imports the package it is generated into")
		}
	default:
		// destination differs from the source package
		if ex.Branch(same) {
			return // inconsistent flag/path combination, established impossible by H.pkgpath
		}
		if ex.Branch(ms.skip) {
			if hasSrc != usesSrcType {
				ex.Fail(fmt.Sprintf("C10: -skip-ensure: source package imported=%v, but a signature mentions one of its types=%v", hasSrc, usesSrcType))
			} else {
				ex.Pass("C10: with -skip-ensure the source package is imported iff a signature needs it")
			}
			ex.Oblige(c.Eq(d.SrcPkgQualifier, c.Concat(ms.srcName, c.StrC("."))), "C10: -skip-ensure keeps the source package name as qualifier text")
		} else {
			if !hasSrc {
				ex.Fail("C10: other destination without -skip-ensure but the source package is not imported")
			} else {
				ex.Oblige(c.Eq(d.SrcPkgQualifier, c.Concat(qualifierOf(ex, srcEntry), c.StrC("."))), "C10: self-check line is qualified with the registered import's qualifier")
			}
		}
	}
}

// checkSelfCheckArg: the type the compile-time self-check instantiates a type parameter with (nil: the
// constraint's own text) must be a type argument the constraint admits. Decided with go/types on the
// real (type-checked) shape: Satisfies for a chosen type; for nil, only constraints that directly embed
// a basic type or a union are required to get one (what the code documents; F5/F6 lie outside).
func checkSelfCheckArg(ex *exec.Exec, ms *mockSetup, chosen exec.Value, constraint *MType, tag string, q int) {
	realC := ms.cv.RealOf(constraint)
	if realC == nil {
		return
	}
	ci, ok := realC.Underlying().(*types.Interface)
	if !ok {
		return
	}
	var mt *MType
	if iv, ok := chosen.(exec.Iface); ok && iv.V != nil {
		mt, _ = iv.V.(*MType)
	}
	if mt == nil {
		direct := false
		for j := 0; j < ci.NumEmbeddeds(); j++ {
			switch ci.EmbeddedType(j).(type) {
			case *types.Basic, *types.Union:
				direct = true
			}
		}
		if direct {
			ex.Fail(fmt.Sprintf("C09: type parameter %d of %s: the constraint embeds a basic type or union but the self-check gets no explicit type argument (it would print the constraint itself, which is not a type)", q, tag))
		}
		return
	}
	realT := ms.cv.RealOf(mt)
	if realT == nil {
		ex.Inconclusive("self-check type argument is not a type of the shape")
		return
	}
	if !types.Satisfies(realT, ci) {
		ex.Fail(fmt.Sprintf("C09: type parameter %d of %s: the self-check instantiates it with %s, which does not satisfy the constraint %s", q, tag, realT, realC))
	} else {
		ex.Pass("C09: the explicit type argument of the self-check satisfies the type parameter's constraint")
	}
}

// mockCLICase realises a model of H.mock as a scratch module for the real CLI.
func mockCLICase(m map[string]string, k int, mode string) *CLICase {
	name := func(n, def string) string {
		if v, ok := m["name_"+n]; ok && v != "" {
			return v
		}
		return def
	}
	src := m["srcPkgName"]
	if src == "" {
		src = "src"
	}
	I1, I2, G, S, L := name("I1", "I1"), name("I2", "I2"), name("G", "G"), name("S", "S"), name("L", "L")
	files := map[string]string{
		"go.mod":   "module src.example\n\ngo 1.21\n",
		"p/q/q.go": "package q\n\ntype T struct{}\ntype Key string\ntype Page[T any] struct{ Items []T }\ntype Integer interface{ ~int | ~int8 | ~int16 }\n",
		"r/q/q.go": "package q\n\ntype T struct{}\n",
		"w/w.go":   "package w\n\ntype T struct{}\n",
		"h/h.go":   "package h\n\nimport \"src.example/r/q\"\n\ntype J interface{ Zed(x q.T) }\n",
		"src/x.go": fmt.Sprintf("package %s\n\nimport (\n\t\"src.example/h\"\n\t\"src.example/p/q\"\n\t\"src.example/w\"\n)\n\ntype %s interface {\n\tM0()\n\tM1(a q.T, b int) error\n\tM2(first q.T, rest ...q.T)\n\tM3(chunks ...[]q.T) []q.T\n}\ntype %s interface{}\ntype %s[T any] interface{ Get(k T) T }\ntype %s struct{}\ntype %s interface{ Do(x %s) }\ntype %s interface{ h.J }\ntype %s = %s[int]\ntype %s[T any] interface{ Less(o T) bool }\ntype %s[T %s[T]] interface{ Min() T }\ntype %s string\ntype %s[K interface{ %s }, V any] interface{ Load(id K) (V, error) }\ntype %s[K comparable, V any] interface{ Snap() map[K]V }\ntype %s[T any] interface{ Fetch(id string) (T, error) }\ntype %s struct{}\ntype %s struct{}\ntype %s interface{ %s[%s] }\ntype %s interface{ %s[%s] }\ntype %s interface {\n\tC1(m map[string]q.T)\n\tC2(c chan q.T)\n\tC3(f func(q.T) error)\n\tC4(s struct{ F q.T })\n\tC5(a [2]q.T)\n\tC6(p **q.T)\n\tC7(i interface{ Do(x q.T) })\n\tC8(v ...func() q.T)\n\tC9(g %s[q.T]) map[q.T][]chan *q.T\n}\n", src, I1, I2, G, S, L, S, name("K", "K"), name("AG", "AG"), G, name("Cmp", "Cmp"), name("SO", "SO"), name("Cmp", "Cmp"), name("UID", "UID"), name("Repo", "Repo"), name("UID", "UID"), name("CK", "CK"), name("St", "St"), name("U1", "U1"), name("O1", "O1"), name("US", "US"), name("St", "St"), name("U1", "U1"), name("OS", "OS"), name("St", "St"), name("O1", "O1"), name("Cons", "Cons"), G) +
			fmt.Sprintf("type %s interface {\n\tN1(m map[q.Key]q.Page[w.T])\n\tN2(p q.Page[q.Page[*w.T]]) q.Key\n}\ntype %s[K interface {\n\tq.Integer\n\t~int8 | ~int16\n}, V any] interface{ Put(k K, v V) }\ntype %s[K interface {\n\tcomparable\n\t~int | ~string\n}] interface{ Has(k K) bool }\n", name("Nest", "Nest"), name("Sh", "Sh"), name("Ky", "Ky")),
	}
	var args []string
	pkg := m["cfg_PkgName"]
	switch mode {
	case "other":
		if pkg == "" {
			pkg = "dstpkg"
		}
		files["src/"+pkg+"/d.go"] = "package " + pkg + "\n"
		args = append(args, "-pkg", pkg)
	case "unknown":
		if pkg == "" {
			pkg = "dstpkg"
		}
		args = append(args, "-pkg", pkg)
	default:
		if pkg != "" {
			args = append(args, "-pkg", pkg)
		}
	}
	if m["cfg_SkipEnsure"] == "true" {
		args = append(args, "-skip-ensure")
	}
	if m["cfg_StubImpl"] == "true" {
		args = append(args, "-stub")
	}
	if m["cfg_WithResets"] == "true" {
		args = append(args, "-with-resets")
	}
	if f := m["cfg_Formatter"]; f != "" {
		args = append(args, "-fmt", f)
	}
	args = append(args, ".")
	for i := 0; i < k; i++ {
		args = append(args, m[fmt.Sprintf("arg%d", i)])
	}
	return &CLICase{Files: files, Cwd: "src", Args: args}
}

// mockUnwinding turns failed unwinding assertions of H.mock into replayed C19 violations.
func mockUnwinding(ic *IC, st *exec.Stats, k int, mode string) {
	done := map[string]bool{}
	for _, u := range st.Unwinding {
		key := "mock-unwind:" + mode + ":" + u.Model["srcPkgName"]
		if done[key] {
			continue
		}
		done[key] = true
		cs := mockCLICase(u.Model, k, mode)
		cs.Expect = "stack overflow"
		cs.Timeout = 120
		v := Violation{Property: "C19", Harness: ic.H.ID, Instance: ic.Name, Label: "non-termination: " + u.Msg, Model: u.Model, Key: key, Props: []string{"C11"}}
		ic.replayCLI(&v, cs)
		ic.addViol(v)
	}
}

// checkSignatures (C02): the strings the template prints for a method — ArgList, ReturnArgTypeList,
// ArgCallList, evaluated by the real renderers from SSA at template time, i.e. after every import and
// alias is final — equal an independent rendering of the interface method's go/types signature
// under the final qualifiers.
func checkSignatures(ex *exec.Exec, env *Env, ms *mockSetup, d *tData, got tMock, iface *MType, i int) {
	c := ex.C
	repo := env.Repo
	qfRef := &exec.Native{Name: "reference qualifier", F: func(ex *exec.Exec, args []exec.Value) exec.Value {
		p := args[0].(*MPkg)
		if !(ms.moqPath.IsConst && ms.moqPath.S == "") && p.Path == ms.moqPath {
			return c.StrC("")
		}
		for _, e := range d.Imports {
			if e.Pkg == p || (e.Pkg != nil && e.Pkg.Path == p.Path) {
				return qualifierOf(ex, e)
			}
		}
		ex.Fail("C11/C02: a package a signature mentions (" + p.Tag + ") is not in the import list")
		return c.StrC("")
	}}
	argList := repo.Method(pkgTemplate, "MethodData", "ArgList")
	retList := repo.Method(pkgTemplate, "MethodData", "ReturnArgTypeList")
	callList := repo.Method(pkgTemplate, "MethodData", "ArgCallList")
	for j, m := range iface.AllMethods {
		gm := got.Methods[j]
		sig := m.Typ
		var wantArgs, wantCall, wantRets []*smt.Term
		n := len(sig.Params.Vars)
		if len(gm.Params) != n || len(gm.Returns) != len(sig.Results.Vars) {
			continue
		}
		for p, v := range sig.Params.Vars {
			variadic := p == n-1 && sig.Variadic.IsConst && sig.Variadic.B && v.Typ.K == "Slice"
			if p > 0 {
				wantArgs = append(wantArgs, c.StrC(", "))
				wantCall = append(wantCall, c.StrC(", "))
			}
			if variadic {
				wantArgs = append(wantArgs, gm.Params[p].Name, c.StrC(" ..."), ms.tm.TypeString(ex, v.Typ.Elem, qfRef))
				wantCall = append(wantCall, gm.Params[p].Name, c.StrC("..."))
			} else {
				wantArgs = append(wantArgs, gm.Params[p].Name, c.StrC(" "), ms.tm.TypeString(ex, v.Typ, qfRef))
				wantCall = append(wantCall, gm.Params[p].Name)
			}
		}
		for r, v := range sig.Results.Vars {
			if r > 0 {
				wantRets = append(wantRets, c.StrC(", "))
			}
			wantRets = append(wantRets, ms.tm.TypeString(ex, v.Typ, qfRef))
		}
		wr := c.Concat(wantRets...)
		if len(sig.Results.Vars) > 1 {
			wr = c.Concat(c.StrC("("), wr, c.StrC(")"))
		}
		a, pan := ex.CallCatch(argList, []exec.Value{gm.Raw})
		if pan != nil {
			ex.Fail("C19/C02: ArgList panics: " + pan.Msg)
			continue
		}
		r, pan := ex.CallCatch(retList, []exec.Value{gm.Raw})
		if pan != nil {
			ex.Fail("C19/C02: ReturnArgTypeList panics: " + pan.Msg)
			continue
		}
		cl, pan := ex.CallCatch(callList, []exec.Value{gm.Raw})
		if pan != nil {
			ex.Fail("C19/C02: ArgCallList panics: " + pan.Msg)
			continue
		}
		ex.Oblige(c.Eq(a.(*smt.Term), c.Concat(wantArgs...)), fmt.Sprintf("C02: mock %d method %d: the printed parameter list is the interface method's signature under the final import qualifiers (variadic tail as ...T)", i, j))
		ex.Oblige(c.Eq(r.(*smt.Term), wr), fmt.Sprintf("C02: mock %d method %d: the printed result list is the interface method's result types under the final qualifiers", i, j))
		ex.Oblige(c.Eq(cl.(*smt.Term), c.Concat(wantCall...)), fmt.Sprintf("C03/C02: mock %d method %d: the delegation passes the parameters in order, spreading the variadic tail", i, j))
	}
}

// noFaults: the "full" variant of H.mock explores the large model package without injected faults
// (fault schedules are the subject of the "light" variant).
func noFaults(ex *exec.Exec) bool {
	f, _ := ex.User["fullVariant"].(bool)
	return f
}
