package h

import (
	"fmt"
	"moqsym/smt"
	"os"
	"path/filepath"
	"sort"
	"strings"
	"time"
)

type Options struct {
	Prop, Tier, Repo, Verif, Solver, Only string
	Workers                               int
	Seed                                  int64
}

// Properties maps a property to its harnesses.
var Properties = map[string]func(env *Env) []*Harness{}

// Extras lets a property add non-harness evidence (e.g. SSA scans).
var Extras = map[string]func(env *Env, pr *PropResult){}

func RunProperty(o Options) (int, error) {
	t0 := time.Now()
	if os.Getenv("MOQSYM_SLOW") != "" {
		smt.SlowLog = os.Stderr
	}
	mk, ok := Properties[o.Prop]
	if !ok {
		return 2, fmt.Errorf("no check registered for property %q", o.Prop)
	}
	repo, err := Load(o.Repo, ".", "./pkg/moq", "./internal/registry", "./internal/template")
	if err != nil {
		return 2, fmt.Errorf("loading %s: %w", o.Repo, err)
	}
	timeout := 10
	if o.Tier == "thorough" {
		timeout = 60
	}
	env := &Env{Repo: repo, RepoDir: o.Repo, VerifDir: o.Verif, Tier: o.Tier, Prop: o.Prop, Seed: o.Seed, Solver: o.Solver, Timeout: timeout, Workers: o.Workers,
		KF: LoadKnown(filepath.Join(o.Verif, "known_findings.json"))}
	defer env.Close()
	pr := &PropResult{ID: o.Prop, Extra: map[string]any{}}
	for _, hh := range mk(env) {
		if o.Only != "" && hh.ID != o.Only {
			continue
		}
		r := env.RunHarness(hh)
		pr.Results = append(pr.Results, r)
		fmt.Printf("%-14s %4d instances %6d paths %8d steps %5d obligations (%d discharged, %d violated, %d unknown) %5d queries %.1fs solver, %.1fs wall\n",
			hh.ID, r.Instances, r.Stats.Paths, r.Stats.Steps, len(r.Stats.Obligations), r.Stats.Count("discharged"), r.Stats.Count("violated"), r.Stats.Count("inconclusive"),
			r.Stats.Queries, r.Stats.SolverTime.Seconds(), r.Wall.Seconds())
		for _, v := range r.Viol {
			if !v.concerns(o.Prop) {
				pr.Other = append(pr.Other, fmt.Sprintf("%s (%s) %s", v.Property, v.Harness, v.Label))
				continue
			}
			if v.Confirmed {
				pr.Viol = append(pr.Viol, v)
			} else {
				pr.Unconf = append(pr.Unconf, v)
			}
		}
		pr.Known = append(pr.Known, r.Known...)
		for _, m := range uniq(append(append([]string(nil), r.Stats.Inconclusive...), r.Inconcl...)) {
			fmt.Printf("INCONCLUSIVE property=%s harness=%s %s\n", o.Prop, hh.ID, short(m, 300))
		}
		if os.Getenv("MOQSYM_SHOWVIOL") != "" {
			seenL := map[string]int{}
			for _, ob := range r.Stats.Obligations {
				if ob.Result != "discharged" {
					seenL[ob.Result+": "+ob.Label]++
				}
			}
			for l, n := range seenL {
				fmt.Printf("  [%d×] %s\n", n, l)
			}
		}
		for i, u := range r.Stats.Unwinding {
			if i < 3 {
				fmt.Printf("UNWINDING harness=%s %s model=%v stack-tail=%v\n", hh.ID, u.Msg, u.Model, tail(u.Stack, 4))
			}
		}
		for _, v := range r.Vacuous {
			fmt.Printf("INCONCLUSIVE property=%s harness=%s instance %s never reached its assertion with a satisfiable path (vacuous)\n", o.Prop, hh.ID, v)
		}
	}
	if ex, ok := Extras[o.Prop]; ok {
		ex(env, pr)
	}
	if l3State != nil && l3State.Guard != nil {
		g := l3State.Guard
		pr.Extra["template_condition_guard"] = map[string]any{
			"note":                    "syntactic listing (text/template/parse), not a solver result: conditions on flags and list structure justify enumerating interface shapes; anything listed under outside_guard means the corpus argument does not cover that branch for all interfaces",
			"conditions":              g.Conditions,
			"outside_guard":           g.Outside,
			"names_added_to_corpus":   g.Names,
			"arities_added_to_corpus": g.Numbers,
			"error":                   g.Err,
		}
		for _, c := range g.Outside {
			fmt.Printf("INCONCLUSIVE property=%s template condition outside the shape guard (corpus cannot stand for all interfaces on this branch): %s\n", o.Prop, short(c, 200))
		}
	}
	pr.Wall = time.Since(t0)
	if err := env.WriteEvidence(pr); err != nil {
		return 2, err
	}
	for _, k := range uniq(pr.Known) {
		fmt.Printf("KNOWN-FINDING: property=%s %s\n", o.Prop, k)
	}
	for i, v := range pr.Unconf {
		if i >= 8 {
			fmt.Printf("INCONCLUSIVE property=%s ... and %d more unconfirmed models\n", o.Prop, len(pr.Unconf)-8)
			break
		}
		fmt.Printf("INCONCLUSIVE property=%s harness=%s unconfirmed model (did not reproduce on the real build): %s [%s] %s\n", o.Prop, v.Harness, v.Label, v.Instance, short(fmt.Sprint(v.Model), 300))
	}
	seen := map[string]bool{}
	var lines []string
	for _, v := range pr.Viol {
		if seen[v.Replay] {
			continue
		}
		seen[v.Replay] = true
		lines = append(lines, fmt.Sprintf("VIOLATION property=%s replay=%s", o.Prop, v.Replay))
		fmt.Fprintf(os.Stderr, "violation: %s [%s/%s] %s\n  model: %v\n  %s\n", o.Prop, v.Harness, v.Instance, v.Label, v.Model, strings.ReplaceAll(v.Detail, "\n", "\n  "))
	}
	sort.Strings(lines)
	for _, l := range lines {
		fmt.Println(l)
	}
	fmt.Printf("property %s tier %s: %d violations, wall %.1fs\n", o.Prop, o.Tier, len(lines), pr.Wall.Seconds())
	if len(lines) > 0 {
		return 1, nil
	}
	return 0, nil
}

func init() {
	Properties["C13"] = func(env *Env) []*Harness { return []*Harness{HExported(), HVarName(), HVars()} }
	Properties["C20"] = func(env *Env) []*Harness { return []*Harness{HPairName(), HMock("light"), HMock("full"), HRun()} }
	Properties["C17"] = func(env *Env) []*Harness { return []*Harness{HRun(), HMain(), HMock("light")} }
	for _, p := range []string{"C03", "C04", "C08"} {
		Properties[p] = func(env *Env) []*Harness { return []*Harness{HGenSeq()} }
	}
	Properties["C07"] = func(env *Env) []*Harness { return []*Harness{HGenSeq(), HVars()} }
	for _, p := range []string{"C05", "C06"} {
		Properties[p] = func(env *Env) []*Harness { return []*Harness{HGenSeq(), HSched()} }
	}
	Properties["C02"] = func(env *Env) []*Harness { return []*Harness{HMock("full"), HGenSeq()} }
	Properties["C09"] = func(env *Env) []*Harness { return []*Harness{HMock("full")} }
	Properties["C10"] = func(env *Env) []*Harness { return []*Harness{HPkgPath(), HMock("light"), HMock("full")} }
	Properties["C19"] = func(env *Env) []*Harness {
		return []*Harness{HImports(), HMock("full"), HVars(), HRun(), HMain(), HPairName()}
	}
	Properties["C11"] = func(env *Env) []*Harness { return []*Harness{HAliases(), HImports(), HMock("light"), HMock("full")} }
	Properties["C12"] = func(env *Env) []*Harness { return []*Harness{HVars()} }
	Properties["C14"] = func(env *Env) []*Harness { return []*Harness{HOrder(), HImports()} }
	Properties["C15"] = func(env *Env) []*Harness { return []*Harness{HRun(), HFixpoint()} }
	Properties["C16"] = func(env *Env) []*Harness { return []*Harness{HHeader(), HMock("light"), HRun()} }
	Properties["C18"] = func(env *Env) []*Harness { return []*Harness{HRun()} }
}

func tail(ss []string, n int) []string {
	if len(ss) > n {
		return ss[len(ss)-n:]
	}
	return ss
}
