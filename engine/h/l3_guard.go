package h

import (
	"fmt"
	"go/ast"
	"go/parser"
	"go/token"
	"path/filepath"
	"sort"
	"strconv"
	"strings"
	"text/template/parse"
)

// TemplateGuard is the shape-completeness guard of DESIGN.md §2.7(2): every condition of the
// template (if / range / with) is listed with the fields, functions and constants it depends on.
// Conditions on flags and list lengths justify enumerating interface *shapes*; a condition on a
// name or a type string does not — it is reported, and string constants that are identifiers are
// turned into extra corpus methods so that a name-conditioned branch is exercised at all.
type TemplateGuard struct {
	Conditions []string
	Outside    []string // conditions that depend on something other than flags / list structure
	Names      []string // identifier-like string constants compared in conditions
	Numbers    []int
	Err        string
}

var guardAllowedFields = map[string]bool{"SkipEnsure": true, "StubImpl": true, "WithResets": true, "TypeParams": true, "Methods": true,
	"Params": true, "Returns": true, "Constraint": true, "Imports": true, "Mocks": true}
var guardAllowedFuncs = map[string]bool{"not": true, "and": true, "or": true, "len": true, "eq": true, "ne": true, "gt": true, "ge": true, "lt": true, "le": true}

// readTemplateText extracts the moqTemplate string literal from the repository's source.
func readTemplateText(repoDir string) (string, error) {
	fset := token.NewFileSet()
	f, err := parser.ParseFile(fset, filepath.Join(repoDir, "internal/template/template.go"), nil, 0)
	if err != nil {
		return "", err
	}
	var text string
	ast.Inspect(f, func(n ast.Node) bool {
		vs, ok := n.(*ast.ValueSpec)
		if !ok || len(vs.Names) != 1 || vs.Names[0].Name != "moqTemplate" || len(vs.Values) != 1 {
			return true
		}
		if bl, ok := vs.Values[0].(*ast.BasicLit); ok {
			if s, err := strconv.Unquote(bl.Value); err == nil {
				text = s
			}
		}
		return false
	})
	if text == "" {
		return "", fmt.Errorf("moqTemplate literal not found")
	}
	return text, nil
}

func templateGuard(repoDir string) *TemplateGuard {
	g := &TemplateGuard{}
	text, err := readTemplateText(repoDir)
	if err != nil {
		g.Err = err.Error()
		return g
	}
	funcs := map[string]any{"ImportStatement": 0, "SyncPkgQualifier": 0, "Exported": 0}
	trees, err := parse.Parse("moq", text, "{{", "}}", funcs, map[string]any{"not": 0, "and": 0, "or": 0, "len": 0, "eq": 0, "ne": 0, "gt": 0, "ge": 0, "lt": 0, "le": 0, "index": 0, "print": 0, "printf": 0, "slice": 0, "html": 0, "js": 0, "call": 0, "println": 0, "urlquery": 0})
	if err != nil {
		g.Err = err.Error()
		return g
	}
	names := map[string]bool{}
	nums := map[int]bool{}
	var walkPipe func(n parse.Node, deps *[]string, bad *bool)
	walkPipe = func(n parse.Node, deps *[]string, bad *bool) {
		switch x := n.(type) {
		case *parse.PipeNode:
			for _, c := range x.Cmds {
				walkPipe(c, deps, bad)
			}
		case *parse.CommandNode:
			for _, a := range x.Args {
				walkPipe(a, deps, bad)
			}
		case *parse.FieldNode:
			*deps = append(*deps, "."+strings.Join(x.Ident, "."))
			if !guardAllowedFields[x.Ident[len(x.Ident)-1]] {
				*bad = true
			}
		case *parse.VariableNode:
			*deps = append(*deps, strings.Join(x.Ident, "."))
			if len(x.Ident) > 1 && !guardAllowedFields[x.Ident[len(x.Ident)-1]] {
				*bad = true
			}
		case *parse.ChainNode:
			walkPipe(x.Node, deps, bad)
			*deps = append(*deps, "."+strings.Join(x.Field, "."))
			if !guardAllowedFields[x.Field[len(x.Field)-1]] {
				*bad = true
			}
		case *parse.IdentifierNode:
			*deps = append(*deps, x.Ident+"()")
			if !guardAllowedFuncs[x.Ident] {
				*bad = true
			}
		case *parse.StringNode:
			*deps = append(*deps, strconv.Quote(x.Text))
			*bad = true
			if token.IsIdentifier(x.Text) {
				names[x.Text] = true
			}
		case *parse.NumberNode:
			*deps = append(*deps, x.Text)
			if x.IsInt {
				nums[int(x.Int64)] = true
			}
		}
	}
	var walk func(n parse.Node)
	cond := func(kind string, p *parse.PipeNode) {
		var deps []string
		bad := false
		walkPipe(p, &deps, &bad)
		line := fmt.Sprintf("%s %s   depends on %v", kind, p.String(), deps)
		g.Conditions = append(g.Conditions, line)
		if bad {
			g.Outside = append(g.Outside, line)
		}
	}
	walk = func(n parse.Node) {
		switch x := n.(type) {
		case *parse.ListNode:
			if x != nil {
				for _, c := range x.Nodes {
					walk(c)
				}
			}
		case *parse.IfNode:
			cond("if", x.Pipe)
			walk(x.List)
			walk(x.ElseList)
		case *parse.RangeNode:
			var deps []string
			bad := false
			walkPipe(x.Pipe, &deps, &bad)
			g.Conditions = append(g.Conditions, fmt.Sprintf("range %s", x.Pipe.String()))
			walk(x.List)
			walk(x.ElseList)
		case *parse.WithNode:
			cond("with", x.Pipe)
			walk(x.List)
			walk(x.ElseList)
		}
	}
	for _, t := range trees {
		walk(t.Root)
	}
	for n := range names {
		g.Names = append(g.Names, n)
	}
	sort.Strings(g.Names)
	for n := range nums {
		g.Numbers = append(g.Numbers, n)
	}
	sort.Ints(g.Numbers)
	return g
}

// dynCorpus: an extra interface exercising the names and arities the template's conditions mention.
func (g *TemplateGuard) dynCorpus() string {
	if len(g.Names) == 0 && len(g.Numbers) == 0 {
		return ""
	}
	var b strings.Builder
	b.WriteString("\n// Dyn is derived from constants that appear in conditions of the template under test.\ntype Dyn interface {\n")
	seen := map[string]bool{}
	add := func(sig string, name string) {
		if !seen[name] {
			seen[name] = true
			b.WriteString("\t" + sig + "\n")
		}
	}
	for _, n := range g.Names {
		add(fmt.Sprintf("%s(%s int) (%s string)", n, lowerFirst(n)+"Arg", lowerFirst(n)+"Res"), n)
	}
	for _, k := range g.Numbers {
		for _, arity := range []int{k - 1, k, k + 1} {
			if arity < 0 || arity > 8 {
				continue
			}
			var ps []string
			for i := 0; i < arity; i++ {
				ps = append(ps, fmt.Sprintf("p%d int", i))
			}
			add(fmt.Sprintf("Arity%d(%s) int", arity, strings.Join(ps, ", ")), fmt.Sprintf("Arity%d", arity))
		}
	}
	b.WriteString("}\n")
	return b.String()
}

func lowerFirst(s string) string {
	if s == "" {
		return s
	}
	return strings.ToLower(s[:1]) + s[1:]
}
