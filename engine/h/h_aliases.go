package h

import (
	"fmt"
	"go/types"

	"moqsym/exec"
	"moqsym/smt"
)

// HAliases: parseImportsAliases on model syntax trees (real go/ast struct types, symbolic contents).
func HAliases() *Harness {
	hh := &Harness{
		ID:          "H.aliases",
		Doc:         "registry.parseImportsAliases from SSA on ≤ 2 files × ≤ 2 import specs whose names (absent / '.' / '_' / identifier) and paths are symbolic: the alias map never contains '.' or '_', contains every other explicit name keyed by the unquoted path (later file wins), and nothing for imports without a name",
		Funcs:       []string{"internal/registry.parseImportsAliases"},
		Assumptions: []string{"import paths are non-empty and contain no double quote (Go syntax)"},
		Bounds:      []string{"2 files × 2 imports, all strings unbounded"},
		Confirm:     func(ic *IC, ob *exec.Obligation) *Violation { return aliasesConfirm(ic, ob) },
	}
	hh.Instances = func(env *Env) []Instance {
		var out []Instance
		for mask := 0; mask < 16; mask++ { // which of the 4 specs carry a Name
			mask := mask
			out = append(out, Instance{Name: fmt.Sprintf("named-mask=%04b", mask), Run: func(ic *IC) *exec.Stats {
				fn := env.Repo.Fn(pkgRegistry, "parseImportsAliases")
				return ic.Explore(func(ex *exec.Exec) {
					c := ex.C
					fileT := fn.Signature.Params().At(0).Type().(*types.Slice).Elem().(*types.Pointer).Elem()
					impsT := fileT.Underlying().(*types.Struct).Field(fieldIndex(fileT, "Imports")).Type().(*types.Slice).Elem().(*types.Pointer).Elem()
					identT := impsT.Underlying().(*types.Struct).Field(fieldIndex(impsT, "Name")).Type().(*types.Pointer).Elem()
					litT := impsT.Underlying().(*types.Struct).Field(fieldIndex(impsT, "Path")).Type().(*types.Pointer).Elem()
					type spec struct {
						named bool
						name  *smt.Term
						path  *smt.Term
					}
					var specs []spec
					files := &exec.ArrLoc{}
					for f := 0; f < 2; f++ {
						fl := ex.NewLoc(fileT).(*exec.StructLoc)
						imps := &exec.ArrLoc{}
						for i := 0; i < 2; i++ {
							k := f*2 + i
							sp := spec{named: mask&(1<<k) != 0, name: c.Var(fmt.Sprintf("name%d", k), smt.String), path: c.Var(fmt.Sprintf("path%d", k), smt.String)}
							ex.AssumeNoCheck(c.Not(c.Contains(sp.path, c.StrC(`"`))))
							ex.AssumeNoCheck(c.Not(c.Eq(sp.name, c.StrC(""))))
							ex.AssumeNoCheck(c.Not(c.Eq(sp.path, c.StrC(""))))
							sl := ex.NewLoc(impsT).(*exec.StructLoc)
							if sp.named {
								id := ex.NewLoc(identT).(*exec.StructLoc)
								id.F[fieldIndex(identT, "Name")].Store(ex, sp.name)
								sl.F[fieldIndex(impsT, "Name")].Store(ex, id)
							}
							lit := ex.NewLoc(litT).(*exec.StructLoc)
							lit.F[fieldIndex(litT, "Value")].Store(ex, c.Concat(c.StrC(`"`), sp.path, c.StrC(`"`)))
							sl.F[fieldIndex(impsT, "Path")].Store(ex, lit)
							imps.E = append(imps.E, &exec.Cell{V: sl})
							specs = append(specs, sp)
						}
						fl.F[fieldIndex(fileT, "Imports")].Store(ex, exec.Slice{Arr: imps, Len: 2, Cap: 2})
						files.E = append(files.E, &exec.Cell{V: fl})
					}
					r, pan := ex.CallCatch(fn, []exec.Value{exec.Slice{Arr: files, Len: 2, Cap: 2}})
					if pan != nil {
						ex.Fail("C19/C11: parseImportsAliases panics: " + pan.Msg)
						return
					}
					m, _ := r.(*exec.MapObj)
					ic.Witness(ex, nil)
					// reference: last explicit, non-dot, non-blank name per path
					for k, sp := range specs {
						// what the map must say for this spec's path
						var want *smt.Term = nil
						for j := len(specs) - 1; j >= 0; j-- {
							o := specs[j]
							if !o.named {
								continue
							}
							usable := c.And(c.Eq(o.path, sp.path), c.Not(c.Eq(o.name, c.StrC("."))), c.Not(c.Eq(o.name, c.StrC("_"))))
							if want == nil {
								want = c.Ite(usable, o.name, c.StrC(""))
							} else {
								// earlier specs only count if no later one was usable: build from the back
								want = c.Ite(c.Eq(want, c.StrC("")), c.Ite(usable, o.name, c.StrC("")), want)
							}
						}
						if want == nil {
							want = c.StrC("")
						}
						got := c.StrC("")
						if m != nil {
							for i := len(m.Keys) - 1; i >= 0; i-- {
								got = c.Ite(c.Eq(m.Keys[i].(*smt.Term), sp.path), m.Vals[i].(*smt.Term), got)
							}
						}
						ex.Oblige(c.Eq(got, want), fmt.Sprintf("C11: the alias harvested for the path of import %d is the last explicit name that is neither '.' nor '_' (none otherwise)", k))
					}
					if m != nil {
						for _, v := range m.Vals {
							ex.Oblige(c.And(c.Not(c.Eq(v.(*smt.Term), c.StrC("."))), c.Not(c.Eq(v.(*smt.Term), c.StrC("_")))), "C11: dot and blank imports of the source never become aliases")
						}
					}
				})
			}})
		}
		return out
	}
	return hh
}

// aliasesConfirm: a source file with a dot / blank / named import of a dependency; the output must
// import it under a usable qualifier.
func aliasesConfirm(ic *IC, ob *exec.Obligation) *Violation {
	env := ic.Env
	key := "aliases:special-import-names"
	v := &Violation{Property: "C11", Harness: ic.H.ID, Instance: ic.Name, Label: ob.Label, Model: ob.Model, Key: key}
	v.Replay = env.replayDir("C11", key)
	// the interesting realisable inputs: a file importing the dependency as '_' or '.', another using it by name
	for _, special := range []string{"_", "."} {
		files := map[string]string{
			"go.mod":   "module w.example\n\ngo 1.21\n",
			"dep/d.go": "package dep\n\ntype T struct{}\n",
			"src/a.go": "package src\n\nimport " + special + " \"w.example/dep\"\n",
			"src/b.go": "package src\n\nimport \"w.example/dep\"\n\ntype I interface{ M(x dep.T) }\n",
		}
		if special == "." {
			files["src/a.go"] += "\nvar _ T\n"
		}
		cs := &CLICase{Files: files, Cwd: "src", Args: []string{".", "I"}, ThenBuild: false}
		res, root, err := env.RunCLI(cs)
		if root != "" {
			defer removeAll(root)
		}
		if err != nil {
			continue
		}
		bad := res.Exit != 0 || !containsAll(res.Out, `"w.example/dep"`) || containsAny(res.Out, `_ "w.example/dep"`, `. "w.example/dep"`, "x _.T", "x ..T")
		v.Detail += fmt.Sprintf("source imports w.example/dep as %q: exit %d, import line ok=%v\n", special, res.Exit, !bad)
		if bad {
			v.Confirmed = true
		}
	}
	writeTree(v.Replay, map[string]string{"replay.out": v.Detail, "replay.sh": "#!/bin/sh\ncat \"$(dirname \"$0\")/replay.out\"\n"})
	return v
}
