package h

import (
	"fmt"
	"os"
	"strings"

	"moqsym/exec"
	"moqsym/smt"

	"golang.org/x/tools/go/ssa"
)

const (
	pkgTemplate = ModPath + "/internal/template"
	pkgRegistry = ModPath + "/internal/registry"
	pkgMoq      = ModPath + "/pkg/moq"
	pkgMain     = ModPath
)

// refInitialisms is the harness's own copy of golint's list (the property's oracle).
var refInitialisms = []string{
	"ACL", "API", "ASCII", "CPU", "CSS", "DNS", "EOF", "GUID", "HTML", "HTTP", "HTTPS", "ID", "IP", "JSON", "LHS",
	"QPS", "RAM", "RHS", "RPC", "SLA", "SMTP", "SQL", "SSH", "TCP", "TLS", "TTL", "UDP", "UI", "UID", "UUID", "URI",
	"URL", "UTF8", "VM", "XML", "XMPP", "XSRF", "XSS",
}

func globalOf(ex *exec.Exec, repo *Repo, pkg, name string) exec.Value {
	p := repo.Pkgs[pkg]
	g, ok := p.Members[name].(*ssa.Global)
	if !ok {
		ex.Inconclusive("global not found: " + pkg + "." + name)
	}
	l, ok := ex.Globals[g]
	if !ok {
		ex.Inconclusive("global not initialised: " + pkg + "." + name)
	}
	return l.Load(ex)
}

// templateFunc fetches a closure from the real templateFuncs map built by template.init.
func templateFunc(ex *exec.Exec, repo *Repo, name string) exec.Value {
	m, ok := globalOf(ex, repo, pkgTemplate, "templateFuncs").(*exec.MapObj)
	if !ok {
		ex.Inconclusive("templateFuncs is not a map")
	}
	for i, k := range m.Keys {
		if s, ok := exec.ConstStr(k); ok && s == name {
			return m.Vals[i].(exec.Iface).V
		}
	}
	ex.Inconclusive("templateFuncs has no entry " + name)
	return nil
}

// refExported is the reference rule of C13 as an SMT term.
func refExported(ex *exec.Exec, s *smt.Term, bound int) *smt.Term {
	c := ex.C
	up := ex.CaseMap(s, true, bound)
	first := ex.CaseMap(c.Substr(s, c.IntC(0), c.IntC(1)), true, 1)
	rest := c.Substr(s, c.IntC(1), c.Sub(c.Len(s), c.IntC(1)))
	res := c.Concat(first, rest)
	for i := len(refInitialisms) - 1; i >= 0; i-- {
		in := c.StrC(refInitialisms[i])
		res = c.Ite(c.Eq(up, in), in, res)
	}
	return c.Ite(c.Eq(s, c.StrC("")), c.StrC(""), res)
}

// HExported: the Exported template function against the reference rule, for all names up to the bound.
func HExported() *Harness {
	hh := &Harness{
		ID:      "H.exported",
		Doc:     "template func Exported(s) == reference (initialism ⇒ upper-case whole name, else upper-case first letter), no slice-bound failure",
		Funcs:   []string{"internal/template.init$1 … (closure templateFuncs[\"Exported\"])"},
		Outside: []string{"names longer than the bound", "non-ASCII names (Exported slices the first byte; SMT strings are code points)"},
		Confirm: exportedConfirm,
	}
	hh.Instances = func(env *Env) []Instance {
		bound := 6
		if env.Tier == "thorough" {
			bound = 8
		}
		hh.Bounds = []string{fmt.Sprintf("|s| ≤ %d, s ∈ printable ASCII", bound)}
		mk := func(name, re string) Instance {
			return Instance{Name: name, Run: func(ic *IC) *exec.Stats {
				ic.StrBound = bound
				return ic.Explore(func(ex *exec.Exec) {
					c := ex.C
					s := c.Var("s", smt.String)
					ex.AssumeNoCheck(c.Le(c.Len(s), c.IntC(int64(bound))))
					ex.AssumeNoCheck(c.InRe(s, re))
					f := templateFunc(ex, env.Repo, "Exported")
					got := ex.CallValue(f, []exec.Value{s}).(*smt.Term)
					ic.Witness(ex, nil)
					want := refExported(ex, s, bound)
					ex.Oblige(c.Eq(got, want), "C13: Exported(s) equals the reference rule")
				})
			}}
		}
		return []Instance{
			mk("identifier", exec.ReIdent),
			mk("printable-ascii", exec.ReAscii),
		}
	}
	return hh
}

func exportedConfirm(ic *IC, ob *exec.Obligation) *Violation {
	in := ob.Model["s"]
	v := &Violation{Property: "C13", Harness: ic.H.ID, Instance: ic.Name, Label: ob.Label, Model: ob.Model, Key: "exported:" + in}
	want2 := goRefExported(in)
	src := fmt.Sprintf(`package template
import "testing"
func TestZZReplay(t *testing.T) {
	f := templateFuncs["Exported"].(func(string) string)
	got := f(%q)
	if got != %q { t.Fatalf("REPRODUCED Exported(%%q) = %%q, reference says %%q", %q, got, %q) }
}
`, in, want2, in, want2)
	ic.replayUnit(v, "internal/template", src)
	return v
}

// goRefExported is the same reference rule in Go (used to build replays).
func goRefExported(s string) string {
	if s == "" {
		return ""
	}
	up := strings.ToUpper(s)
	for _, in := range refInitialisms {
		if up == in {
			return in
		}
	}
	return strings.ToUpper(s[:1]) + s[1:]
}

// HPairName: parseInterfaceName for every argument string.
func HPairName() *Harness {
	hh := &Harness{
		ID:     "H.pairname",
		Doc:    "parseInterfaceName(np): no ':' ⇒ (np, np+\"Mock\"); else (before first ':', everything after it); never panics",
		Funcs:  []string{"pkg/moq.parseInterfaceName"},
		Bounds: []string{"np: any string (no length bound; SplitN encoded with str.indexof)"},
		Confirm: func(ic *IC, ob *exec.Obligation) *Violation {
			in := ob.Model["np"]
			wi, wm := in, in+"Mock"
			if k := strings.Index(in, ":"); k >= 0 {
				wi, wm = in[:k], in[k+1:]
			}
			v := &Violation{Property: "C20", Harness: ic.H.ID, Instance: ic.Name, Label: ob.Label, Model: ob.Model, Key: "pairname:" + in}
			src := fmt.Sprintf(`package moq
import "testing"
func TestZZReplay(t *testing.T) {
	a, b := parseInterfaceName(%q)
	if a != %q || b != %q { t.Fatalf("REPRODUCED parseInterfaceName(%%q) = (%%q, %%q), want (%%q, %%q)", %q, a, b, %q, %q) }
}
`, in, wi, wm, in, wi, wm)
			ic.replayUnit(v, "pkg/moq", src)
			return v
		},
	}
	hh.Instances = func(env *Env) []Instance {
		return []Instance{{Name: "any-string", Run: func(ic *IC) *exec.Stats {
			fn := env.Repo.Fn(pkgMoq, "parseInterfaceName")
			return ic.Explore(func(ex *exec.Exec) {
				c := ex.C
				np := c.Var("np", smt.String)
				r := ex.CallFn(fn, []exec.Value{np}, nil).(exec.Tuple)
				iface, mock := r[0].(*smt.Term), r[1].(*smt.Term)
				ic.Witness(ex, nil)
				colon := c.StrC(":")
				idx := c.IndexOf(np, colon, c.IntC(0))
				has := c.Contains(np, colon)
				wantI := c.Ite(has, c.Substr(np, c.IntC(0), idx), np)
				wantM := c.Ite(has, c.Substr(np, c.Add(idx, c.IntC(1)), c.Len(np)), c.Concat(np, c.StrC("Mock")))
				ex.Oblige(c.And(c.Eq(iface, wantI), c.Eq(mock, wantM)), "C20: parseInterfaceName matches the documented rule")
			})
		}}}
	}
	return hh
}

// HHeader: the template constant the generator renders starts with the generated-code marker.
func HHeader() *Harness {
	hh := &Harness{
		ID:          "H.header",
		Doc:         "moqTemplate (read from the globals initialised by executing template.init from SSA) begins with the generated-code marker line, before any package clause",
		Funcs:       []string{"internal/template.init"},
		Assumptions: []string{"text/template emits a leading text node verbatim; go/format keeps a leading comment first"},
		Bounds:      []string{"the template constant is concrete; no quantifier"},
		Confirm: func(ic *IC, ob *exec.Obligation) *Violation {
			v := &Violation{Property: "C16", Harness: ic.H.ID, Instance: ic.Name, Label: ob.Label, Model: ob.Model, Key: "header:" + ob.Label}
			v.Replay = ic.Env.replayDir("C16", v.Key)
			findings, tr, err := ic.Env.mockObserve(map[string]string{"arg0": "I1"}, 1, "same")
			if err != nil {
				v.Detail = err.Error()
				return v
			}
			os.WriteFile(v.Replay+"/replay.out", []byte(tr), 0o644)
			os.WriteFile(v.Replay+"/replay.sh", []byte("#!/bin/sh\ncat \"$(dirname \"$0\")/replay.out\"\n"), 0o755)
			for _, f := range findings {
				if strings.HasPrefix(f, "C16:") {
					v.Confirmed = true
				}
			}
			v.Detail = short(tr, 500)
			return v
		},
	}
	hh.Instances = func(env *Env) []Instance {
		return []Instance{{Name: "template-constant", Run: func(ic *IC) *exec.Stats {
			return ic.Explore(func(ex *exec.Exec) {
				t, ok := exec.ConstStr(globalOf(ex, env.Repo, pkgTemplate, "moqTemplate"))
				ic.Witness(ex, func(map[string]string) any { return map[string]any{"template_prefix": short(t, 60)} })
				if !ok {
					ex.Fail("C16: moqTemplate is not a constant string")
					return
				}
				const marker = "// Code generated by moq; DO NOT EDIT.\n"
				if !strings.HasPrefix(t, marker) {
					ex.Fail("C16: the template does not begin with the generated-code marker line")
				} else if i := strings.Index(t, "package "); i < len(marker) {
					ex.Fail("C16: a package clause precedes the marker")
				} else {
					ex.Pass("C16: the marker line is the first line of the template, before the package clause")
				}
			})
		}}}
	}
	return hh
}
