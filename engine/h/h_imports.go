package h

import (
	"fmt"
	"go/ast"
	"go/parser"
	"go/token"
	"os"
	"path/filepath"
	"strconv"
	"strings"
	"time"

	"moqsym/exec"
	"moqsym/smt"

	"golang.org/x/tools/go/ssa"
)

// impShape: one package of an AddImport history.
type impPkg struct {
	Segs         int  // number of symbolic path segments after the fixed prefix "w.example/"
	Aliased      bool // the source file imports it under an explicit alias
	Vendor       bool // reached through a vendor directory (path = w.example/src/vendor/<rest>)
	VendorSuffix bool // the first path element merely ends in "vendor" (e.g. multivendor/catalog): nothing is vendored
}

type impShape struct {
	Name string
	Pkgs []impPkg
	Dup  bool // the last package is added a second time (same object), and once more through its vendored spelling
}

func impShapes(tier string) []impShape {
	var out []impShape
	add := func(name string, dup bool, pk ...impPkg) { out = append(out, impShape{Name: name, Pkgs: pk, Dup: dup}) }
	add("1+1", false, impPkg{Segs: 1}, impPkg{Segs: 1})
	add("2+2", false, impPkg{Segs: 2}, impPkg{Segs: 2})
	add("1+2", false, impPkg{Segs: 1}, impPkg{Segs: 2})
	add("2+1", false, impPkg{Segs: 2}, impPkg{Segs: 1})
	add("alias+plain", false, impPkg{Segs: 1, Aliased: true}, impPkg{Segs: 1})
	add("plain+alias", false, impPkg{Segs: 2}, impPkg{Segs: 1, Aliased: true})
	add("alias+alias", false, impPkg{Segs: 1, Aliased: true}, impPkg{Segs: 1, Aliased: true})
	add("vendored-twice", true, impPkg{Segs: 2, Vendor: true})
	add("element-ending-in-vendor", false, impPkg{Segs: 2, VendorSuffix: true}, impPkg{Segs: 1})
	// Three-package histories (1+1+1, 2+2+2, 1+2+3, alias+plain+plain, plain+plain+alias) and 3+3 did not
	// finish within 25 min together with the C14 invariant when measured unloaded; both registered tiers
	// therefore run the shapes above. MOQSYM_IMPORTS_DEEP=1 adds them for an unregistered deep run.
	if tier == "thorough" && os.Getenv("MOQSYM_IMPORTS_DEEP") != "" {
		add("1+1+1", false, impPkg{Segs: 1}, impPkg{Segs: 1}, impPkg{Segs: 1})
		add("2+2+2", false, impPkg{Segs: 2}, impPkg{Segs: 2}, impPkg{Segs: 2})
		add("1+2+3", false, impPkg{Segs: 1}, impPkg{Segs: 2}, impPkg{Segs: 3})
		add("alias+plain+plain", false, impPkg{Segs: 1, Aliased: true}, impPkg{Segs: 2}, impPkg{Segs: 2})
		add("plain+plain+alias", false, impPkg{Segs: 2}, impPkg{Segs: 1}, impPkg{Segs: 1, Aliased: true})
		add("3+3", false, impPkg{Segs: 3}, impPkg{Segs: 3})
	}
	return out
}

const impPrefix = "w.example"

// symPathSeg: a path element a Go module can actually contain.
func symPathSeg(ex *exec.Exec, name string, bound int) *smt.Term {
	c := ex.C
	if t := concreteOf(ex, name); t != nil {
		return t
	}
	v := c.Var(name, smt.String)
	ch := `(re.union ` + exec.ReLower + ` ` + exec.ReUpper + ` ` + exec.ReDigit + ` (str.to_re "_") (str.to_re "-")`
	ex.AssumeDomain(c.InRe(v, `(re.++ `+ch+`) (re.* `+ch+` (str.to_re ".") (str.to_re "~"))) (re.opt `+ch+`)))`))
	ex.AssumeNoCheck(c.Le(c.Len(v), c.IntC(int64(bound))))
	ex.AssumeNoCheck(c.Ge(c.Len(v), c.IntC(1)))
	ex.AssumeNoCheck(c.Not(c.Contains(v, c.StrC("/"))))
	for _, bad := range []string{".", "..", "vendor", "src", "testdata", "internal"} {
		ex.AssumeNoCheck(c.Not(c.Eq(v, c.StrC(bad))))
	}
	return v
}

type impRun struct {
	reg    *exec.StructLoc
	pkgs   []*MPkg
	paths  []*smt.Term // stripped paths
	names  []*smt.Term
	alias  []*smt.Term // nil when the source has no alias
	segs   [][]*smt.Term
	sanSeg [][]*smt.Term
}

func replacerOf(ex *exec.Exec, repo *Repo) *exec.Replacer {
	p := repo.Pkgs[pkgRegistry]
	g, _ := p.Members["replacer"].(*ssa.Global)
	if g == nil {
		ex.Inconclusive("registry.replacer not found")
	}
	cell, ok := ex.Globals[g].Load(ex).(*exec.Cell)
	if !ok {
		ex.Inconclusive("registry.replacer is not initialised")
	}
	return cell.V.(*exec.Replacer)
}

// uniqueNameRef: the candidate alias at a level, built from the same sanitize terms the stub uses.
func (ir *impRun) uniqueNameRef(ex *exec.Exec, i, lvl int) *smt.Term {
	// path = w.example/<segs...>; reversed: segs reversed, then "w.example"
	all := append([]*smt.Term{ex.C.StrC("wexample")}, ir.sanSeg[i]...)
	n := lvl + 1
	if n > len(all) {
		n = len(all)
	}
	return ex.C.Concat(all[len(all)-n:]...)
}

// HImports: histories of AddImport from the empty registry.
func HImports() *Harness {
	hh := &Harness{
		ID:  "H.imports",
		Doc: "Registry.AddImport histories from the empty registry (then sync, as Mock does) on packages whose path segments, names and source-file aliases are symbolic: one entry per stripped path, qualifiers pairwise distinct and valid identifiers, a non-conflicting source alias is kept, vendored and plain spellings de-duplicate, Imports() sorted, resolveImportConflict terminates",
		Funcs: []string{"internal/registry.(*Registry).AddImport", "internal/registry.(Registry).searchImport", "internal/registry.(Registry).resolveImportConflict", "internal/registry.(Package).uniqueName",
			"internal/registry.(*Package).Qualifier", "internal/registry.(*Package).Path", "internal/registry.stripVendorPath", "internal/registry.reverse", "internal/registry.min", "internal/registry.(Registry).Imports"},
		Assumptions: []string{
			"import paths are w.example/<1–3 symbolic segments>; segments are valid module path elements (letters, digits, - _ . ~, no leading/trailing dot) other than vendor/src/internal/testdata; distinct packages have distinct paths",
			"strings.ToLower ∘ Replacer.Replace on a segment is summarised: exact (lower-casing) for alphanumeric segments, otherwise an uninterpreted function into [a-z0-9]* not longer than the segment (functional, not injective)",
			"package names and source aliases are identifiers; aliases of different packages are distinct (one file) unless the shape says otherwise",
		},
		Outside: []string{"more than 2 packages per history (three-package histories only with MOQSYM_IMPORTS_DEEP=1, unregistered)", "more than 2 symbolic path segments per package", "nested vendor directories"},
		Confirm: importsConfirm,
	}
	hh.Instances = func(env *Env) []Instance {
		bound := 5
		shapes := impShapes(env.Tier)
		hh.Bounds = []string{fmt.Sprintf("%d history shapes (≤ %d packages, ≤ 3 segments each, with/without source alias, vendored spelling), segments and names ≤ %d chars; call depth ≤ 16 (recursion of resolveImportConflict ≤ 12 levels; candidate aliases are constant beyond level 4)", len(shapes), 3, bound)}
		var out []Instance
		for _, sh := range shapes {
			sh := sh
			if !hasVendor(sh) { // a vendored spelling only exists in GOPATH mode; it is checked symbolically only
				out = append(out, Instance{Name: "translator-validation:" + sh.Name, Run: func(ic *IC) *exec.Stats {
					// the engine in concrete mode (exact replacer) against the real CLI on the same input
					concrete := map[string]string{}
					for i, p := range sh.Pkgs {
						for k := 0; k < p.Segs; k++ {
							concrete[fmt.Sprintf("p%d_seg%d", i, k)] = []string{"Alpha-x", "beta", "gamma.v2"}[(i+k)%3] + fmt.Sprint(i)
							concrete[fmt.Sprintf("p%d_seg%dpre", i, k)] = "multi"
						}
						concrete[fmt.Sprintf("p%d_name", i)] = "dup" // same name everywhere: forces conflict resolution
						concrete[fmt.Sprintf("p%d_alias", i)] = fmt.Sprintf("al%d", i)
					}
					engine := map[string]string{}
					st := ic.Explore(func(ex *exec.Exec) {
						ex.User["concrete"] = concrete
						ex.User["collectImports"] = &engine
						runImports(ic, ex, env, sh, bound)
					})
					st.Unwinding = nil
					_, tr, err := env.importsObserve(sh, concrete)
					real := ""
					if i := strings.Index(tr, "imports: map["); i >= 0 {
						real = tr[i+len("imports: "):]
						real = real[:strings.Index(real, "]")+1]
					}
					ic.mu.Lock()
					if err == nil && real != "" && real == fmt.Sprint(engine) {
						ic.Validated++
						ic.Samples = append(ic.Samples, map[string]any{"harness": "H.imports", "translator_validation": sh.Name, "engine_imports": fmt.Sprint(engine), "real_cli_imports": real})
					} else {
						ic.Inconcl = append(ic.Inconcl, fmt.Sprintf("translator validation failed for history %s: engine %v vs real CLI %s (%v)", sh.Name, engine, real, err))
					}
					ic.mu.Unlock()
					return st
				}})
			}
			out = append(out, Instance{Name: sh.Name, Run: func(ic *IC) *exec.Stats {
				ic.StrBound = bound
				ic.MaxDepth = 16 // candidate aliases are constant beyond level 4: deeper recursion cannot make progress
				ic.MaxPaths = 30000
				st := ic.Explore(func(ex *exec.Exec) { runImports(ic, ex, env, sh, bound) })
				importsUnwinding(ic, st, sh, func(model map[string]string) bool {
					// concretise-and-check: the summary of the replacer over-approximates, so a model is only
					// a non-termination witness if the exact (concrete) execution also fails to unwind
					st2 := ic.Explore(func(ex *exec.Exec) {
						ex.User["concrete"] = model
						runImports(ic, ex, env, sh, bound)
					})
					return len(st2.Unwinding) > 0
				})
				st.Unwinding = nil
				return st
			}})
		}
		return out
	}
	return hh
}

func runImports(ic *IC, ex *exec.Exec, env *Env, sh impShape, bound int) {
	c := ex.C
	repo := env.Repo
	tm := NewTM(repo)
	ex.User["tm"] = tm
	ir := &impRun{}
	var aliasKV []exec.Value
	rep := replacerOf(ex, repo)
	for i, p := range sh.Pkgs {
		var segs, san []*smt.Term
		parts := []*smt.Term{c.StrC(impPrefix)}
		for k := 0; k < p.Segs; k++ {
			var s *smt.Term
			if p.VendorSuffix && k == 0 {
				s = c.Concat(symPathSeg(ex, fmt.Sprintf("p%d_seg%dpre", i, k), 3), c.StrC("vendor"))
			} else {
				s = symPathSeg(ex, fmt.Sprintf("p%d_seg%d", i, k), bound)
			}
			segs = append(segs, s)
			san = append(san, ex.Sanitize(rep, s, true))
			parts = append(parts, c.StrC("/"), s)
		}
		stripped := c.Concat(parts...)
		full := stripped
		if p.Vendor {
			full = c.Concat(c.StrC(impPrefix+"/src/vendor/"), stripped)
		}
		name := symIdent(ex, fmt.Sprintf("p%d_name", i), bound)
		ex.AssumeNoCheck(c.Not(c.Eq(name, c.StrC("_"))))
		ex.AssumeDomain(notKeyword(ex, name))
		ir.pkgs = append(ir.pkgs, &MPkg{Name: name, Path: full, Tag: fmt.Sprintf("p%d", i)})
		ir.paths = append(ir.paths, stripped)
		ir.names = append(ir.names, name)
		ir.segs = append(ir.segs, segs)
		ir.sanSeg = append(ir.sanSeg, san)
		if p.Aliased {
			a := symIdent(ex, fmt.Sprintf("p%d_alias", i), bound)
			ex.AssumeNoCheck(c.Not(c.Eq(a, c.StrC("_"))))
			ex.AssumeDomain(notKeyword(ex, a))
			ir.alias = append(ir.alias, a)
			aliasKV = append(aliasKV, stripped, a)
		} else {
			ir.alias = append(ir.alias, nil)
		}
	}
	// distinct packages have distinct paths; file-scope names (aliases, and names of unaliased direct imports) are distinct
	ex.AssumeNoCheck(c.Distinct(ir.paths...))
	var als []*smt.Term
	for _, a := range ir.alias {
		if a != nil {
			als = append(als, a)
		}
	}
	ex.AssumeNoCheck(c.Distinct(als...))
	// ---- known-finding classes, excluded from the input domain ----
	decl := func(i int) *smt.Term { // the qualifier the package is first registered under
		if ir.alias[i] != nil {
			return ir.alias[i]
		}
		return ir.names[i]
	}
	maxLvl := 4
	// in the order-composition harness the non-termination classes are assumed away in the path
	// condition itself (they are plain equalities), so that diverging paths are pruned early
	assumeClass := ex.AssumeDomain
	if strict, _ := ex.User["ordertwice"].(bool); strict {
		assumeClass = ex.AssumeNoCheck
	}
	if kf := env.KF.Open("C19", "imports:equal-sanitised-paths"); kf != nil {
		for i := range ir.pkgs {
			for j := i + 1; j < len(ir.pkgs); j++ {
				var eqs []*smt.Term
				for l := 0; l <= maxLvl; l++ {
					eqs = append(eqs, c.Eq(ir.uniqueNameRef(ex, i, l), ir.uniqueNameRef(ex, j, l)))
				}
				assumeClass(c.Not(c.And(eqs...)))
			}
		}
		ic.kfHit("C19", "imports:equal-sanitised-paths")
	}
	if kf := env.KF.Open("C19", "imports:candidate-alias-is-taken-qualifier"); kf != nil {
		// some candidate alias of one package (any level) equals the declared qualifier of another one or "sync"
		for i := range ir.pkgs {
			// divergence needs the candidate to equal the other qualifier at every deeper level, i.e.
			// the saturated candidate (all path elements) equals it; a clash at an intermediate level
			// is resolved one level further down
			sat := ir.uniqueNameRef(ex, i, maxLvl)
			for j := range ir.pkgs {
				if j != i {
					assumeClass(c.Not(c.Eq(sat, decl(j))))
				}
			}
			for l := 0; l <= maxLvl; l++ {
				// the std package registered last has the one-element path "sync": its only candidate is "sync"
				assumeClass(c.Not(c.Eq(ir.uniqueNameRef(ex, i, l), c.StrC("sync"))))
			}
		}
		for i := range ir.pkgs {
			assumeClass(c.Not(c.Eq(decl(i), c.StrC("sync"))))
		}
		ic.kfHit("C19", "imports:candidate-alias-is-taken-qualifier")
	}
	if kf := env.KF.Open("C11", "imports:alias-of-new-import-not-visible"); kf != nil {
		// class: package i's candidate at level l is the declared qualifier of package j (so i is pushed one
		// level down) and i's next candidate equals j's candidate at level l — which j then takes too,
		// because the import being added is not in the registry while the conflict is resolved
		for i := range ir.pkgs {
			for j := range ir.pkgs {
				if i == j {
					continue
				}
				for l := 0; l < maxLvl; l++ {
					assumeClass(c.Not(c.And(c.Eq(ir.uniqueNameRef(ex, i, l), decl(j)), c.Eq(ir.uniqueNameRef(ex, i, l+1), ir.uniqueNameRef(ex, j, l)))))
				}
			}
		}
		ic.kfHit("C11", "imports:alias-of-new-import-not-visible")
	}
	if kf := env.KF.Open("C11", "imports:generated-alias-not-an-identifier"); kf != nil {
		for i := range ir.pkgs {
			for l := 0; l < len(ir.segs[i]); l++ {
				u := ir.uniqueNameRef(ex, i, l)
				ex.AssumeDomain(c.And(c.InRe(u, exec.ReIdent), notKeyword(ex, u)))
			}
		}
		ic.kfHit("C11", "imports:generated-alias-not-an-identifier")
	}
	ir.reg = newRegistry(ex, repo, RegistryCfg{SrcPkgName: c.StrC("src"), SrcPkg: &MPkg{Name: c.StrC("src"), Path: c.StrC(impPrefix + "/src"), Tag: "src"},
		MoqPkgPath: c.StrC(impPrefix + "/src"), Aliases: aliasKV})
	addImport := repo.Method(pkgRegistry, "Registry", "AddImport")
	// C14: Registry.searchImport ranges over a Go map. Its result is independent of the iteration
	// order iff at most one entry can carry the qualifier searched for; that is checked at every call.
	searchFn := repo.Method(pkgRegistry, "Registry", "searchImport")
	rt := repo.named(pkgRegistry, "Registry")
	pt := repo.named(pkgRegistry, "Package")
	if env.Prop == "C14" { // the per-call invariant is only needed for C14; it triples the solver time
		ex.LocalStubs = map[string]exec.Stub{searchFn.String(): func(ex *exec.Exec, ci *exec.CallInfo) exec.Value {
			if regv, ok := ci.Args[0].(*exec.Struct); ok {
				if m, ok := regv.F[fieldIndex(rt, "imports")].(*exec.MapObj); ok && m != nil && len(m.Vals) > 1 {
					name := ci.Args[1].(*smt.Term)
					var hits []*smt.Term
					for _, v := range m.Vals {
						pl := v.(*exec.StructLoc)
						al := pl.F[fieldIndex(pt, "Alias")].Load(ex).(*smt.Term)
						q := al
						if p, ok := pl.F[fieldIndex(pt, "pkg")].Load(ex).(*MPkg); ok {
							q = c.Ite(c.Eq(al, c.StrC("")), p.Name, al)
						}
						hits = append(hits, c.Eq(q, name))
					}
					var atMostOne []*smt.Term
					for i := range hits {
						for j := i + 1; j < len(hits); j++ {
							atMostOne = append(atMostOne, c.Not(c.And(hits[i], hits[j])))
						}
					}
					ex.Oblige(c.And(atMostOne...), "C14: whenever the registry is searched by qualifier at most one entry can match, so map iteration order cannot influence the result")
				}
			}
			return ex.RunBody(searchFn, ci.Args)
		}}
	}
	check := func(step string, added []int) {
		entries := registryImports(ex, repo, ir.reg)
		if len(entries) != len(added) {
			ex.Fail(fmt.Sprintf("C11: after %s the registry has %d entries for %d distinct packages", step, len(entries), len(added)))
			return
		}
		var quals []*smt.Term
		var conds []*smt.Term
		var labels []string
		for k, e := range entries {
			q := qualifierOf(ex, e)
			quals = append(quals, q)
			if e.Pkg == nil {
				ex.Fail("C11: registry entry without package")
				return
			}
			if e.Pkg.Tag != "NewPackage" {
				conds = append(conds, c.Eq(e.Key, ir.paths[added[k]]))
				labels = append(labels, "C11: entries are keyed by the canonical (vendor-stripped) import path")
			}
			conds = append(conds, c.And(identOrRegex(ex, q), notKeyword(ex, q), c.Not(c.Eq(q, c.StrC("_")))))
			labels = append(labels, "C11: every qualifier is a valid identifier, not a keyword, not blank")
		}
		conds = append(conds, c.Distinct(quals...))
		labels = append(labels, "C11: qualifiers are unique within the file")
		// (iv) a source alias that collides with nothing is kept
		for k, e := range entries {
			i := added[k]
			if i >= len(ir.alias) || ir.alias[i] == nil {
				continue
			}
			var free []*smt.Term
			for k2, e2 := range entries {
				if k2 == k {
					continue
				}
				j := added[k2]
				free = append(free, c.Not(c.Eq(ir.alias[i], qualifierOf(ex, e2))))
				if j < len(ir.names) {
					free = append(free, c.Not(c.Eq(ir.alias[i], ir.names[j])))
					if ir.alias[j] != nil {
						free = append(free, c.Not(c.Eq(ir.alias[i], ir.alias[j])))
					}
				} else {
					free = append(free, c.Not(c.Eq(ir.alias[i], c.StrC("sync"))))
				}
			}
			conds = append(conds, c.Implies(c.And(free...), c.Eq(e.Alias, ir.alias[i])))
			labels = append(labels, "C11: an alias the source file already uses is kept when it conflicts with nothing")
		}
		ex.ObligeAll(conds, labels)
	}
	var added []int
	for i := range sh.Pkgs {
		r, pan := ex.CallCatch(addImport, []exec.Value{ir.reg, ir.pkgs[i]})
		if pan != nil {
			ex.Fail("C19/C11: AddImport panics: " + pan.Msg)
			return
		}
		if _, isNil := r.(exec.NilV); isNil {
			ex.Fail("C11: AddImport drops a package that is not the destination package")
			return
		}
		added = append(added, i)
		check(fmt.Sprintf("adding package %d", i), added)
	}
	if sh.Dup {
		last := len(sh.Pkgs) - 1
		// the same package again, and its other spelling (plain vs vendored): still one entry
		other := &MPkg{Name: ir.names[last], Path: ir.paths[last], Tag: "respelled"}
		for _, p := range []*MPkg{ir.pkgs[last], other} {
			if _, pan := ex.CallCatch(addImport, []exec.Value{ir.reg, p}); pan != nil {
				ex.Fail("C19/C11: AddImport panics: " + pan.Msg)
				return
			}
		}
		entries := registryImports(ex, repo, ir.reg)
		if len(entries) != len(added) {
			ex.Fail(fmt.Sprintf("C11: vendored and plain spellings of one package give %d entries", len(entries)))
		} else {
			ex.Pass("C11: a package is imported once, whatever spelling (vendored or plain) it is met under")
		}
	}
	sync := &MPkg{Name: c.StrC("sync"), Path: c.StrC("sync"), Tag: "NewPackage"}
	if _, pan := ex.CallCatch(addImport, []exec.Value{ir.reg, sync}); pan != nil {
		ex.Fail("C19/C11: AddImport(sync) panics: " + pan.Msg)
		return
	}
	added = append(added, len(sh.Pkgs))
	ic.Witness(ex, nil)
	check("adding sync", added)
	if sink, ok := ex.User["collectImports"].(*map[string]string); ok {
		for _, e := range registryImports(ex, repo, ir.reg) {
			q, _ := exec.ConstStr(qualifierOf(ex, e))
			p, _ := exec.ConstStr(e.Key)
			(*sink)[q] = p
		}
	}
	if tw, _ := ex.User["ordertwice"].(bool); tw {
		// ---- C14: the same history on a second registry, every map range in its own arbitrary order ----
		first := registryImports(ex, repo, ir.reg)
		reg2 := newRegistry(ex, repo, RegistryCfg{SrcPkgName: c.StrC("src"), SrcPkg: &MPkg{Name: c.StrC("src"), Path: c.StrC(impPrefix + "/src"), Tag: "src"},
			MoqPkgPath: c.StrC(impPrefix + "/src"), Aliases: aliasKV})
		for i := range sh.Pkgs {
			if _, pan := ex.CallCatch(addImport, []exec.Value{reg2, ir.pkgs[i]}); pan != nil {
				ex.Fail("C14/C19: whether AddImport panics depends on map iteration order: " + pan.Msg)
				return
			}
		}
		if _, pan := ex.CallCatch(addImport, []exec.Value{reg2, &MPkg{Name: c.StrC("sync"), Path: c.StrC("sync"), Tag: "NewPackage"}}); pan != nil {
			ex.Fail("C14/C19: whether AddImport(sync) panics depends on map iteration order: " + pan.Msg)
			return
		}
		second := registryImports(ex, repo, reg2)
		if len(second) != len(first) {
			ex.Fail("C14: the number of imports depends on map iteration order")
			return
		}
		var same []*smt.Term
		for k := range first {
			same = append(same, c.Eq(qualifierOf(ex, first[k]), qualifierOf(ex, second[k])))
		}
		ex.Oblige(c.And(same...), "C14: import qualifiers do not depend on map iteration order")
		return
	}
	if fp, _ := ex.User["fixpoint"].(bool); fp {
		if kf := env.KF.Open("C15", "fixpoint:source-alias-equals-other-package-name"); kf != nil {
			for i := range ir.pkgs {
				if ir.alias[i] == nil {
					continue
				}
				for j := range ir.pkgs {
					if j != i {
						ex.AssumeDomain(c.Not(c.Eq(ir.alias[i], ir.names[j])))
					}
				}
				ex.AssumeDomain(c.Not(c.Eq(ir.alias[i], c.StrC("sync"))))
			}
			ic.kfHit("C15", "fixpoint:source-alias-equals-other-package-name")
		}
		// ---- C15: run the same history again with the aliases of the first output in the package ----
		first := registryImports(ex, repo, ir.reg)
		var aliasKV2 []exec.Value
		for k, e := range first {
			i := added[k]
			a2 := e.Alias // what the generated file's import declaration says ("" = no alias)
			if i < len(ir.alias) && ir.alias[i] != nil {
				// the source file has its own alias for this path; parseImportsAliases lets the later file win
				if chooseVar(ex, "outcome_generated_file_sorts_last", 2) == 1 {
					a2 = c.Ite(c.Eq(e.Alias, c.StrC("")), ir.alias[i], e.Alias)
				} else {
					a2 = ir.alias[i]
				}
			}
			aliasKV2 = append(aliasKV2, e.Key, a2)
		}
		reg2 := newRegistry(ex, repo, RegistryCfg{SrcPkgName: c.StrC("src"), SrcPkg: &MPkg{Name: c.StrC("src"), Path: c.StrC(impPrefix + "/src"), Tag: "src"},
			MoqPkgPath: c.StrC(impPrefix + "/src"), Aliases: aliasKV2})
		for i := range sh.Pkgs {
			if _, pan := ex.CallCatch(addImport, []exec.Value{reg2, ir.pkgs[i]}); pan != nil {
				ex.Fail("C15/C19: AddImport panics when the previous output is part of the package: " + pan.Msg)
				return
			}
		}
		if _, pan := ex.CallCatch(addImport, []exec.Value{reg2, &MPkg{Name: c.StrC("sync"), Path: c.StrC("sync"), Tag: "NewPackage"}}); pan != nil {
			ex.Fail("C15/C19: AddImport(sync) panics when the previous output is part of the package: " + pan.Msg)
			return
		}
		second := registryImports(ex, repo, reg2)
		if len(second) != len(first) {
			ex.Fail("C15: the second generation has a different number of imports")
			return
		}
		var same []*smt.Term
		for k := range first {
			// the import declaration prints the alias when it is non-empty: alias and path must coincide, not only the qualifier
			same = append(same, c.Eq(first[k].Alias, second[k].Alias), c.Eq(qualifierOf(ex, first[k]), qualifierOf(ex, second[k])), c.Eq(first[k].Key, second[k].Key))
		}
		ex.Oblige(c.And(same...), "C15: regenerating with the previous output left in the package yields the same import declarations (the output is a fixed point)")
		return
	}
	// the destination package itself is never imported
	self := &MPkg{Name: c.StrC("src"), Path: c.StrC(impPrefix + "/src"), Tag: "self"}
	r, pan := ex.CallCatch(addImport, []exec.Value{ir.reg, self})
	if pan != nil {
		ex.Fail("C19/C11: AddImport(self) panics: " + pan.Msg)
		return
	}
	if _, isNil := r.(exec.NilV); !isNil || len(registryImports(ex, repo, ir.reg)) != len(added) {
		ex.Fail("C10/C11: the destination package is imported into itself")
	} else {
		ex.Pass("C10/C11: imports of the destination package itself are dropped")
	}
	// Imports(): sorted by path, a permutation of the entries
	impFn := repo.Method(pkgRegistry, "Registry", "Imports")
	iv, pan := ex.CallCatch(impFn, []exec.Value{ir.reg.Load(ex)})
	if pan != nil {
		ex.Fail("C19/C11: Imports panics: " + pan.Msg)
		return
	}
	list := ex.SliceElems(iv)
	if len(list) != len(added) {
		ex.Fail("C11: Imports() does not return every registry entry exactly once")
		return
	}
	var sorted []*smt.Term
	seen := map[exec.Value]bool{}
	for _, e := range list {
		if seen[e] {
			ex.Fail("C11: Imports() repeats an entry")
		}
		seen[e] = true
		p, _ := e.(*exec.StructLoc).F[fieldIndex(pt, "pkg")].Load(ex).(*MPkg)
		sorted = append(sorted, stripRef(ex, p))
	}
	var ord []*smt.Term
	for k := 1; k < len(sorted); k++ {
		ord = append(ord, c.StrLt(sorted[k-1], sorted[k]))
	}
	ex.Oblige(c.And(ord...), "C11/C14: the import list is strictly increasing by canonical path")
}

// stripRef: canonical path of a model package (the harness knows which ones are vendored spellings).
func stripRef(ex *exec.Exec, p *MPkg) *smt.Term {
	parts := ex.C.Flatten(p.Path)
	if len(parts) > 0 && parts[0].IsConst && strings.HasPrefix(parts[0].S, impPrefix+"/src/vendor/") {
		parts = append([]*smt.Term{ex.C.StrC(strings.TrimPrefix(parts[0].S, impPrefix+"/src/vendor/"))}, parts[1:]...)
		return ex.C.Concat(parts...)
	}
	return p.Path
}

// identOrRegex: identifier-ness of a qualifier term (structural when possible).
func identOrRegex(ex *exec.Exec, t *smt.Term) *smt.Term {
	if t.Op == "ite" {
		return ex.C.Ite(t.Args[0], identOrRegex(ex, t.Args[1]), identOrRegex(ex, t.Args[2]))
	}
	return identShaped(ex, t)
}

// ---- replay ----

// importsCase realises a history: package i is reached through a helper package's embedded interface
// (no source alias) or imported directly under its alias.
func importsCase(sh impShape, m map[string]string) *CLICase {
	files := map[string]string{"go.mod": "module " + impPrefix + "\n\ngo 1.21\n"}
	var srcImports, embeds, methods []string
	for i, p := range sh.Pkgs {
		var segs []string
		for k := 0; k < p.Segs; k++ {
			seg := nonEmpty(m[fmt.Sprintf("p%d_seg%d", i, k)], fmt.Sprintf("s%d%d", i, k))
			if p.VendorSuffix && k == 0 {
				seg = nonEmpty(m[fmt.Sprintf("p%d_seg%dpre", i, k)], "multi") + "vendor"
			}
			segs = append(segs, seg)
		}
		rel := strings.Join(segs, "/")
		name := nonEmpty(m[fmt.Sprintf("p%d_name", i)], fmt.Sprintf("pk%d", i))
		dir := rel
		if p.Vendor {
			dir = "src/vendor/" + impPrefix + "/" + rel
		}
		files[dir+"/x.go"] = "package " + name + "\n\ntype T struct{}\n"
		ipath := impPrefix + "/" + rel
		if p.Aliased {
			a := nonEmpty(m[fmt.Sprintf("p%d_alias", i)], fmt.Sprintf("al%d", i))
			srcImports = append(srcImports, fmt.Sprintf("\t%s %q", a, ipath))
			methods = append(methods, fmt.Sprintf("\tM%d(zzparam %s.T)", i, a))
		} else {
			h := fmt.Sprintf("zzhelper%d", i)
			hdir := h
			if p.Vendor {
				hdir = "src/" + h // the helper must sit below src/ to see src/vendor
			}
			files[hdir+"/h.go"] = fmt.Sprintf("package %s\n\nimport zzdep %q\n\ntype J interface{ M%d(zzparam zzdep.T) }\n", h, ipath, i)
			hpath := impPrefix + "/" + hdir
			srcImports = append(srcImports, fmt.Sprintf("\t%q", hpath))
			embeds = append(embeds, fmt.Sprintf("\t%s.J", h))
		}
	}
	src := "package src\n\nimport (\n" + strings.Join(srcImports, "\n") + "\n)\n\ntype I interface {\n" + strings.Join(append(embeds, methods...), "\n") + "\n}\n"
	files["src/x.go"] = src
	if hasVendor(sh) {
		files["src/vendor/modules.txt"] = ""
	}
	return &CLICase{Files: files, Cwd: "src", Args: []string{".", "I"}}
}

func hasVendor(sh impShape) bool {
	for _, p := range sh.Pkgs {
		if p.Vendor {
			return true
		}
	}
	return false
}

// importsObserve runs the real CLI and inspects the import block of the output.
func (env *Env) importsObserve(sh impShape, m map[string]string) ([]string, string, error) {
	cs := importsCase(sh, m)
	cs.Timeout = 120
	res, root, err := env.RunCLI(cs)
	if root != "" {
		defer os.RemoveAll(root)
	}
	if err != nil {
		return nil, "", err
	}
	var findings []string
	tr := "moq . I   (in src/)\n" + short(res.Out, 500) + "\n"
	if strings.Contains(res.Out, "stack overflow") || res.TimedOut {
		findings = append(findings, "C19: moq does not terminate (stack overflow in resolveImportConflict)", "C11: alias resolution does not terminate")
		return findings, tr, nil
	}
	if strings.Contains(res.Out, "panic:") {
		findings = append(findings, "C19: moq panics")
	}
	if res.Exit != 0 {
		if strings.Contains(res.Out, "go/format") {
			findings = append(findings, "C11: the generated import block is not valid Go: "+short(firstLineWith(res.Out, "go/format"), 160))
		}
		return findings, tr, nil
	}
	fset := token.NewFileSet()
	f, perr := parser.ParseFile(fset, "out.go", res.Out, parser.ImportsOnly)
	if perr != nil {
		findings = append(findings, "C11: output does not parse: "+perr.Error())
		return findings, tr, nil
	}
	quals := map[string]string{}
	paths := map[string]bool{}
	prev := ""
	for _, im := range f.Imports {
		p, _ := strconv.Unquote(im.Path.Value)
		if paths[p] {
			findings = append(findings, "C11: "+p+" is imported twice")
		}
		paths[p] = true
		if strings.Contains(p, "/vendor/") {
			findings = append(findings, "C11: import path keeps its vendor prefix: "+p)
		}
		if p <= prev {
			findings = append(findings, "C11: imports are not sorted by path")
		}
		prev = p
		q := ""
		if im.Name != nil {
			q = im.Name.Name
			if q == "." || q == "_" {
				findings = append(findings, "C11: dot or blank import in the output")
			}
		} else {
			q = p[strings.LastIndex(p, "/")+1:]
			for i, pk := range sh.Pkgs {
				var segs []string
				for k := 0; k < pk.Segs; k++ {
					seg := nonEmpty(m[fmt.Sprintf("p%d_seg%d", i, k)], fmt.Sprintf("s%d%d", i, k))
					if pk.VendorSuffix && k == 0 {
						seg = nonEmpty(m[fmt.Sprintf("p%d_seg%dpre", i, k)], "multi") + "vendor"
					}
					segs = append(segs, seg)
				}
				if p == impPrefix+"/"+strings.Join(segs, "/") {
					q = nonEmpty(m[fmt.Sprintf("p%d_name", i)], fmt.Sprintf("pk%d", i))
				}
			}
		}
		if other, dup := quals[q]; dup {
			findings = append(findings, fmt.Sprintf("C11: qualifier %s is used for both %s and %s", q, other, p))
		}
		quals[q] = p
		// a source alias that collides with nothing must be kept
	}
	// exactly the canonical paths of the packages the interface refers to, plus sync
	want := map[string]bool{"sync": true}
	for i, pk := range sh.Pkgs {
		var segs []string
		for k := 0; k < pk.Segs; k++ {
			seg := nonEmpty(m[fmt.Sprintf("p%d_seg%d", i, k)], fmt.Sprintf("s%d%d", i, k))
			if pk.VendorSuffix && k == 0 {
				seg = nonEmpty(m[fmt.Sprintf("p%d_seg%dpre", i, k)], "multi") + "vendor"
			}
			segs = append(segs, seg)
		}
		want[impPrefix+"/"+strings.Join(segs, "/")] = true
	}
	for p := range paths {
		if !want[p] {
			findings = append(findings, "C11: imported path "+p+" is not the canonical path of a package the interface refers to")
		}
	}
	for p := range want {
		if !paths[p] {
			findings = append(findings, "C11: package "+p+" is referred to but not imported")
		}
	}
	for i, pk := range sh.Pkgs {
		if !pk.Aliased {
			continue
		}
		a := nonEmpty(m[fmt.Sprintf("p%d_alias", i)], fmt.Sprintf("al%d", i))
		collides := a == "sync"
		for j := range sh.Pkgs {
			if j != i && (a == m[fmt.Sprintf("p%d_name", j)] || a == m[fmt.Sprintf("p%d_alias", j)]) {
				collides = true
			}
		}
		if _, kept := quals[a]; !kept && !collides {
			findings = append(findings, "C11: the source file's alias "+a+" collides with nothing but was not kept")
		}
	}
	tr += fmt.Sprintf("imports: %v\nfindings: %v\n", quals, findings)
	_ = ast.IsExported
	return findings, tr, nil
}

func importsShapeByName(name string) *impShape {
	for _, tier := range []string{"thorough"} {
		for _, sh := range impShapes(tier) {
			if sh.Name == name {
				s := sh
				return &s
			}
		}
	}
	return nil
}

func importsConfirm(ic *IC, ob *exec.Obligation) *Violation {
	sh := importsShapeByName(ic.Name)
	if sh == nil {
		return nil
	}
	return importsReplay(ic, *sh, ob.Label, ob.Model)
}

func importsReplay(ic *IC, sh impShape, label string, model map[string]string) *Violation {
	env := ic.Env
	props := labelProps(label)
	prop := env.Prop
	if len(props) > 0 {
		prop = props[0]
	}
	var kv []string
	for _, k := range sortedKeys(model) {
		if strings.HasPrefix(k, "p") && !strings.Contains(k, "$") {
			kv = append(kv, k+"="+model[k])
		}
	}
	key := "imports:" + sh.Name + ":" + strings.Join(kv, ",")
	v := &Violation{Property: prop, Harness: ic.H.ID, Instance: ic.Name, Label: label, Model: model, Key: key}
	if len(props) > 1 {
		v.Props = props[1:]
	}
	dir := env.replayDir(prop, key)
	v.Replay = dir
	cs := importsCase(sh, model)
	writeTree(filepath.Join(dir, "tree"), cs.Files)
	os.WriteFile(filepath.Join(dir, "replay.sh"), []byte("#!/bin/sh\n# realised input under tree/: build moq from the repository and run 'moq . I' inside tree/src\ncat \"$(dirname \"$0\")/replay.out\"\n"), 0o755)
	findings, tr, err := env.importsObserve(sh, model)
	if err != nil {
		v.Detail = "replay could not run: " + err.Error()
		return v
	}
	if prop == "C14" {
		// determinism is observed by repetition: Go randomises map iteration on every run
		outs := map[string]int{}
		for i := 0; i < 40; i++ {
			res, root, rerr := env.RunCLI(cs)
			if root != "" {
				os.RemoveAll(root)
			}
			if rerr != nil {
				break
			}
			outs[res.Out]++
		}
		tr += fmt.Sprintf("40 runs of 'moq . I' produced %d distinct outputs\n", len(outs))
		if len(outs) > 1 {
			findings = append(findings, "C14: repeated runs on the same input give different output")
		}
	}
	os.WriteFile(filepath.Join(dir, "replay.out"), []byte(tr), 0o644)
	for _, f := range findings {
		for _, p := range append([]string{prop}, v.Props...) {
			if strings.HasPrefix(f, p+":") {
				v.Confirmed = true
			}
		}
	}
	v.Detail = short(tr, 600)
	return v
}

// importsUnwinding: a failed unwinding assertion inside the input domain is a non-termination
// witness once it survives the exact concrete re-execution; it is then replayed on the real CLI.
func importsUnwinding(ic *IC, st *exec.Stats, sh impShape, exact func(model map[string]string) bool) {
	n, spurious := 0, 0
	seen := map[string]bool{}
	for _, u := range st.Unwinding {
		key := fmt.Sprint(u.Model)
		if seen[key] || u.Model["$status"] != "" {
			continue
		}
		seen[key] = true
		if !exact(u.Model) {
			spurious++
			continue
		}
		if n >= 3 {
			break
		}
		n++
		v := importsReplay(ic, sh, "C19/C11: resolveImportConflict does not terminate: "+u.Msg, u.Model)
		v.Confirmed = strings.Contains(v.Detail, "does not terminate") || strings.Contains(v.Detail, "stack overflow")
		ic.addViol(*v)
	}
	if spurious > 0 {
		ic.note(fmt.Sprintf("H.imports/%s: %d unwinding models came from the over-approximating replacer summary and terminate under exact concrete execution (dropped)", sh.Name, spurious))
	}
}

// HFixpoint: C15, second half — moq's own output is a fixed point of moq as far as import aliases go.
func HFixpoint() *Harness {
	hh := &Harness{
		ID:    "H.fixpoint",
		Doc:   "an AddImport history is run twice from SSA: the second time the registry's source aliases are those parseImportsAliases harvests from the first output (merged with the source file's own aliases in either file order): every import keeps its qualifier",
		Funcs: []string{"internal/registry.(*Registry).AddImport", "internal/registry.(Registry).resolveImportConflict", "internal/registry.(Package).uniqueName"},
		Assumptions: []string{"same input assumptions and known-finding classes as H.imports; the first run ends with unique, valid qualifiers (otherwise its output does not compile and the second load fails, C15's own proviso)",
			"the rest of the generated text is a function of (aliases, identifiers, flags): C14 plus determinism of text/template and go/format"},
		Outside: []string{"identifiers of parameters (they do not depend on the package's files)", "more than 2 packages"},
		Confirm: func(ic *IC, ob *exec.Obligation) *Violation {
			sh := importsShapeByName(ic.Name)
			if sh == nil {
				return nil
			}
			return fixpointReplay(ic, *sh, ob.Label, ob.Model)
		},
	}
	hh.Instances = func(env *Env) []Instance {
		bound := 5
		hh.Bounds = []string{"history shapes 1+1, 2+2, 1+2, alias+plain, plain+alias; segments and names ≤ 5 chars"}
		var out []Instance
		for _, sh := range impShapes("quick") {
			switch sh.Name {
			case "1+1", "2+2", "1+2", "alias+plain", "plain+alias":
			default:
				continue
			}
			sh := sh
			out = append(out, Instance{Name: sh.Name, Run: func(ic *IC) *exec.Stats {
				ic.StrBound = bound
				ic.MaxDepth = 16
				ic.MaxPaths = 30000
				st := ic.Explore(func(ex *exec.Exec) {
					ex.User["fixpoint"] = true
					runImports(ic, ex, env, sh, bound)
				})
				st.Unwinding = nil // non-termination is H.imports' business
				return st
			}})
		}
		return out
	}
	return hh
}

// fixpointObserve: generate in place, generate again, compare bytes.
func (env *Env) fixpointObserve(sh impShape, model map[string]string) (differs bool, tr string, cs *CLICase, err error) {
	cs = importsCase(sh, model)
	outName := "aa_mock_gen.go" // sorts before the source file x.go: the source file's aliases win
	for k, v := range model {
		if strings.HasPrefix(k, "outcome_generated_file_sorts_last") && v == "1" {
			outName = "zz_mock_gen.go"
		}
	}
	cs.Args = []string{"-out", outName, ".", "I"}
	bin, err := env.MoqBin()
	if err != nil {
		return false, "", cs, err
	}
	root, err := os.MkdirTemp(env.scratch(), "fix-")
	if err != nil {
		return false, "", cs, err
	}
	defer os.RemoveAll(root)
	writeTree(root, cs.Files)
	cwd := filepath.Join(root, "src")
	o1, e1 := runCmd(cwd, 2*time.Minute, cliEnv(), bin, cs.Args...)
	b1, _ := os.ReadFile(filepath.Join(cwd, outName))
	o2, e2 := runCmd(cwd, 2*time.Minute, cliEnv(), bin, cs.Args...)
	b2, _ := os.ReadFile(filepath.Join(cwd, outName))
	imp := func(b []byte) string { // the import block
		s := string(b)
		i, j := strings.Index(s, "import ("), strings.Index(s, "\n)")
		if i < 0 || j < i {
			return s
		}
		return s[i : j+2]
	}
	tr = fmt.Sprintf("moq "+strings.Join(cs.Args, " ")+"\nfirst run: err=%v %s\nsecond run: err=%v %s\nfiles identical=%v (%d vs %d bytes)\nimport block of run 1:\n%s\nimport block of run 2:\n%s\n", e1, short(o1, 200), e2, short(o2, 200), string(b1) == string(b2), len(b1), len(b2), imp(b1), imp(b2))
	return e1 == nil && (e2 != nil || imp(b1) != imp(b2)), tr, cs, nil
}

func fixpointReplay(ic *IC, sh impShape, label string, model map[string]string) *Violation {
	env := ic.Env
	var kv []string
	for _, k := range sortedKeys(model) {
		if strings.HasPrefix(k, "p") && !strings.Contains(k, "$") {
			kv = append(kv, k+"="+model[k])
		}
	}
	key := "fixpoint:" + sh.Name + ":" + strings.Join(kv, ",")
	v := &Violation{Property: "C15", Harness: ic.H.ID, Instance: ic.Name, Label: label, Model: model, Key: key}
	dir := env.replayDir("C15", key)
	v.Replay = dir
	differs, tr, cs, err := env.fixpointObserve(sh, model)
	if cs != nil {
		writeTree(filepath.Join(dir, "tree"), cs.Files)
	}
	os.WriteFile(filepath.Join(dir, "replay.sh"), []byte("#!/bin/sh\n# realised input under tree/: run moq twice with -out (command in replay.out) inside tree/src and compare the two files\ncat \"$(dirname \"$0\")/replay.out\"\n"), 0o755)
	if err != nil {
		v.Detail = err.Error()
		return v
	}
	os.WriteFile(filepath.Join(dir, "replay.out"), []byte(tr), 0o644)
	v.Confirmed = differs
	v.Detail = tr
	return v
}

// HOrderImports: C14 for the import registry — AddImport histories run twice under arbitrary map orders.
func HOrderImports() *Harness {
	hh := &Harness{
		ID:          "H.order-imports",
		Doc:         "an AddImport history is run on two registries from SSA, each range over the imports map (searchImport) iterating in its own arbitrary order: the qualifiers coincide",
		Funcs:       []string{"internal/registry.(*Registry).AddImport", "internal/registry.(Registry).searchImport", "internal/registry.(Registry).resolveImportConflict"},
		Assumptions: []string{"Go map iteration order is arbitrary: each range over a map forks over every permutation of its entries", "same input assumptions and known-finding classes as H.imports"},
		Outside:     []string{"more than 2 packages besides sync"},
		Confirm: func(ic *IC, ob *exec.Obligation) *Violation {
			sh := importsShapeByName(ic.Name)
			if sh == nil {
				return nil
			}
			env := ic.Env
			var kv []string
			for _, k := range sortedKeys(ob.Model) {
				if strings.HasPrefix(k, "p") && !strings.Contains(k, "$") {
					kv = append(kv, k+"="+ob.Model[k])
				}
			}
			key := "order-imports:" + sh.Name + ":" + strings.Join(kv, ",")
			v := &Violation{Property: "C14", Harness: ic.H.ID, Instance: ic.Name, Label: ob.Label, Model: ob.Model, Key: key}
			v.Replay = env.replayDir("C14", key)
			cs := importsCase(*sh, ob.Model)
			writeTree(filepath.Join(v.Replay, "tree"), cs.Files)
			outs := map[string]int{}
			for i := 0; i < 40; i++ {
				res, root, err := env.RunCLI(cs)
				if root != "" {
					os.RemoveAll(root)
				}
				if err != nil {
					v.Detail = err.Error()
					return v
				}
				outs[res.Out]++
			}
			tr := fmt.Sprintf("40 runs of 'moq . I' in tree/src produced %d distinct outputs\n", len(outs))
			os.WriteFile(filepath.Join(v.Replay, "replay.out"), []byte(tr), 0o644)
			os.WriteFile(filepath.Join(v.Replay, "replay.sh"), []byte("#!/bin/sh\ncat \"$(dirname \"$0\")/replay.out\"\n"), 0o755)
			v.Confirmed = len(outs) > 1
			v.Detail = tr
			return v
		},
	}
	hh.Instances = func(env *Env) []Instance {
		bound := 5
		hh.Bounds = []string{"history shapes 1+1, 2+2, 1+2, 2+1, alias+plain, plain+alias; ≤ 3 map entries ⇒ ≤ 6 orders per range"}
		var out []Instance
		for _, sh := range impShapes("quick") {
			switch sh.Name {
			case "1+1", "2+2", "1+2", "2+1", "alias+plain", "plain+alias":
			default:
				continue
			}
			sh := sh
			out = append(out, Instance{Name: sh.Name, Run: func(ic *IC) *exec.Stats {
				ic.StrBound = bound
				ic.MaxDepth = 12
				ic.MaxPaths = 6000
				st := ic.Explore(func(ex *exec.Exec) {
					ex.User["ordertwice"] = true
					ex.User["orderMode"] = true
					runImports(ic, ex, env, sh, bound)
				})
				st.Unwinding = nil
				return st
			}})
		}
		return out
	}
	return hh
}
