package h

import (
	"fmt"
	"go/types"
	"strings"

	"moqsym/exec"
	"moqsym/smt"

	"golang.org/x/tools/go/ssa"
)

// genMethod finds the SSA function of a (possibly generic) mock method by name.
func (m *L3Mock) genMethod(prog *ssa.Program, name string) *ssa.Function {
	for i := 0; i < m.Type.NumMethods(); i++ {
		if m.Type.Method(i).Name() == name {
			return prog.FuncValue(m.Type.Method(i))
		}
	}
	return nil
}

func (m *L3Mock) hasMethod(name string) bool {
	for i := 0; i < m.Type.NumMethods(); i++ {
		if m.Type.Method(i).Name() == name {
			return true
		}
	}
	return false
}

// traceCheck walks the event list of one execution of a generated function and discharges the
// lock-discipline obligations shared by C04, C05 and C06. It returns the header writes per list.
type traceInfo struct {
	Writes    map[string][]exec.Value // cell name -> values written
	Calls     []exec.Event
	CallHeld  []int
	HdrBefore bool
}

func traceCheck(ex *exec.Exec, h *MockHeap, snapP, snapM *smt.Term) *traceInfo {
	c := ex.C
	ti := &traceInfo{Writes: map[string][]exec.Value{}}
	type held struct {
		l    *LockLoc
		kind string
	}
	var stack []held
	holds := func(name string, needW bool) bool {
		for _, hd := range stack {
			if hd.l == h.Locks[name] && (!needW || hd.kind == "W") {
				return true
			}
		}
		return false
	}
	okLocks, okNest, okRel, okFrame, okCallLock := true, true, true, true, true
	for _, e := range ex.Events {
		switch e.Kind {
		case "AcqW", "AcqR":
			if len(stack) > 0 {
				okNest = false
			}
			stack = append(stack, held{e.Args[0].(*LockLoc), e.Kind[3:]})
		case "RelW", "RelR":
			if len(stack) == 0 || stack[len(stack)-1].l != e.Args[0].(*LockLoc) || stack[len(stack)-1].kind != e.Kind[3:] {
				okRel = false
			} else {
				stack = stack[:len(stack)-1]
			}
		case "Rd", "Wr":
			cell := e.Args[0].(*SharedCell)
			if strings.HasPrefix(cell.Name, "calls.") {
				if !holds(strings.TrimPrefix(cell.Name, "calls."), e.Kind == "Wr") {
					okLocks = false
				}
			} else if e.Kind == "Wr" {
				okFrame = false // generated code never assigns function fields
			}
			if e.Kind == "Wr" {
				ti.Writes[cell.Name] = append(ti.Writes[cell.Name], e.Args[1])
			}
		case "WrElem":
			if len(stack) != 1 || stack[0].kind != "W" {
				okLocks = false
			}
			id, idx := e.Args[0].(*smt.Term), e.Args[1].(*smt.Term)
			ex.Oblige(c.Implies(c.Eq(id, snapP), c.Ge(idx, snapM)), "C04/C05: an element write never lands inside a slice already returned by MCalls() (index ≥ snapshot length)")
		case "RdElems":
			if len(stack) != 1 {
				okLocks = false
			}
		case "Call":
			ti.Calls = append(ti.Calls, e)
			if len(stack) > 0 {
				okCallLock = false
			}
		case "Go":
			ex.Fail("C03: generated code starts a goroutine")
		case "Defer":
			ex.Emit("note", "defer seen")
		case "Recover":
			ex.Fail("C03: generated code recovers a panic of the user function")
		}
	}
	verdict := func(ok bool, label string) {
		if ok {
			ex.Pass(label)
		} else {
			ex.Fail(label)
		}
	}
	verdict(okLocks, "C05: every access to a call-record list happens under that method's lock (write lock for writes)")
	verdict(okNest, "C06: locks are taken strictly one after another, never nested")
	verdict(okRel && len(stack) == 0, "C06: every lock taken is released before the function returns or panics")
	verdict(okCallLock, "C06: no internal lock is held while the user function runs")
	verdict(okFrame, "C03/C04: function fields are never assigned by generated code")
	return ti
}

type l3op struct {
	kind   string // call | nilcall | calls | reset | resetall | structure
	method string
	zero   bool
}

// HGenSeq: sequential obligations of every generated function from an arbitrary receiver state.
func HGenSeq() *Harness {
	hh := &Harness{
		ID:  "G.seq",
		Doc: "every generated method / accessor / reset of every corpus mock, executed from SSA from an arbitrary receiver state (function fields nil or not, record lists with symbolic identity, length, capacity and contents) with arbitrary arguments: delegation, recording, frame, lock discipline, nil handling, reset; one inductive step covers histories of any length",
		Assumptions: []string{
			"sync.RWMutex methods are lock events (writer exclusion, reader sharing); the generated code resolves them through go/types to the real sync package (checked while loading)",
			"append either writes in place at index len (len < cap) or allocates a fresh array with arbitrary larger capacity; a fresh array aliases no existing one",
			"a call of a function-typed field is a Call event returning arbitrary values of the result types, or panicking with an arbitrary value",
			"representation invariant of a record list: 0 ≤ len ≤ cap, nil list has cap 0, lists of different methods do not share arrays; it holds for the zero value and is preserved by every operation (checked)",
			"interface shapes are those of the corpus (10 interfaces, 30 methods: 0–4 params, 0–3 results, named/unnamed/blank, variadic, generic, embedded, aliased, imported types) × the flag combinations listed under bounds; names and types outside the corpus are covered only through the template-condition guard",
		},
		Outside: []string{"interface shapes outside the corpus", "text/template itself (L2)"},
		Confirm: l3Confirm,
	}
	hh.Instances = func(env *Env) []Instance {
		st, err := env.L3Get()
		if err != nil || st == nil || st.Repo == nil {
			msg := "L3 corpus could not be generated/loaded"
			if err != nil {
				msg += ": " + err.Error()
			}
			if st != nil {
				msg += ": " + strings.Join(st.Errs, "; ")
			}
			return []Instance{{Name: "corpus", Run: func(ic *IC) *exec.Stats {
				ic.Inconcl = append(ic.Inconcl, msg)
				ic.genFailure(st, msg)
				return &exec.Stats{}
			}}}
		}
		hh.Bounds = []string{fmt.Sprintf("%d generated mocks = %d interfaces × %d flag combinations (%s tier)", len(st.Mocks), len(corpusIfaces), len(l3Configs(env.Tier)), env.Tier)}
		var out []Instance
		if len(st.Errs) > 0 {
			msg := strings.Join(st.Errs, "; ")
			out = append(out, Instance{Name: "corpus-errors", Run: func(ic *IC) *exec.Stats {
				ic.genFailure(st, msg)
				return &exec.Stats{}
			}})
		}
		for _, m := range st.Mocks {
			m := m
			var ops []l3op
			ops = append(ops, l3op{kind: "structure"})
			for _, name := range m.Methods {
				ops = append(ops, l3op{kind: "call", method: name}, l3op{kind: "nilcall", method: name}, l3op{kind: "calls", method: name},
					l3op{kind: "call", method: name, zero: true}, l3op{kind: "calls", method: name, zero: true})
				if m.Cfg.Resets {
					ops = append(ops, l3op{kind: "reset", method: name})
				}
			}
			if m.Cfg.Resets {
				ops = append(ops, l3op{kind: "resetall"})
			}
			for _, op := range ops {
				op := op
				nm := m.Name + "/" + op.kind + ":" + op.method
				if op.zero {
					nm += "/zero-value"
				}
				out = append(out, Instance{Name: nm, Run: func(ic *IC) *exec.Stats {
					ic.Repo = st.Repo
					return ic.Explore(func(ex *exec.Exec) { runGenOp(ic, ex, st, m, op) })
				}})
			}
		}
		return out
	}
	return hh
}

// genFailure reports generated code that does not build: a mock that does not compile satisfies none of C03–C08.
func (ic *IC) genFailure(st *L3State, msg string) {
	v := Violation{Property: ic.Env.Prop, Harness: ic.H.ID, Instance: ic.Name, Label: "generated corpus mocks do not build: " + short(msg, 300), Key: "l3-build:" + short(msg, 80)}
	dir := ic.Env.replayDir(ic.Env.Prop, v.Key)
	v.Replay = dir
	cmds := ""
	if st != nil {
		cmds = strings.Join(st.Cmds, "\n")
	}
	writeTree(dir, map[string]string{"errors.txt": msg + "\n", "moq-commands.txt": cmds + "\n", "corpus/corpus.go": corpusSrc, "dep/dep.go": corpusDep,
		"replay.sh": "#!/bin/sh\n# run the moq commands listed in moq-commands.txt inside corpus/ of a module 'corpus.example' and build the result\ncat \"$(dirname \"$0\")/errors.txt\"\n"})
	v.Confirmed = true // observed directly on the real moq binary and the Go type checker
	v.Detail = msg
	ic.addViol(v)
}

func runGenOp(ic *IC, ex *exec.Exec, st *L3State, m *L3Mock, op l3op) {
	c := ex.C
	ex.OpaqueNested = true
	prog := st.Repo.Prog
	if op.kind == "structure" {
		ic.Witness(ex, nil)
		want := m.ifaceMethods(st.Repo)
		if fmt.Sprint(want) != fmt.Sprint(sortedCopy(m.Methods)) && fmt.Sprint(sortedCopy(want)) != fmt.Sprint(sortedCopy(m.Methods)) {
			ex.Fail(fmt.Sprintf("C02: mock %s has function fields %v, interface %s has methods %v", m.Name, m.Methods, m.Iface, want))
		} else {
			ex.Pass("C02: one function field per interface method")
		}
		for _, name := range m.Methods {
			for _, need := range []string{name, name + "Calls"} {
				if !m.hasMethod(need) {
					ex.Fail("C02/C04: mock " + m.Name + " lacks method " + need)
				}
			}
			if m.hasMethod("Reset"+name+"Calls") != m.Cfg.Resets {
				ex.Fail(fmt.Sprintf("C08: Reset%sCalls present=%v but -with-resets=%v (%s)", name, !m.Cfg.Resets, m.Cfg.Resets, m.Name))
			} else {
				ex.Pass("C08: per-method reset exists iff -with-resets")
			}
		}
		if m.hasMethod("ResetCalls") != m.Cfg.Resets {
			ex.Fail(fmt.Sprintf("C08: ResetCalls present=%v but -with-resets=%v (%s)", !m.Cfg.Resets, m.Cfg.Resets, m.Name))
		} else {
			ex.Pass("C08: ResetCalls exists iff -with-resets")
		}
		// C02: *Mock implements the interface (non-generic ones: go/types decides directly)
		if m.IfaceObj != nil && m.Type.TypeParams().Len() == 0 {
			if it, ok := m.IfaceObj.Underlying().(*types.Interface); ok {
				if types.Implements(types.NewPointer(m.Type), it) {
					ex.Pass("C02: go/types confirms *Mock implements the corpus interface")
				} else {
					ex.Fail("C02: *" + m.Name + " does not implement " + m.Iface)
				}
			}
		}
		return
	}
	h := newMockHeap(ex, m)
	if op.zero {
		// base case of the induction: the zero-value mock
		for name, cell := range h.Calls {
			cell.V = exec.Slice{}
			_ = name
		}
	}
	// lists of different methods do not share arrays
	var ids []*smt.Term
	for _, s := range h.Pre {
		ids = append(ids, s.ID)
	}
	for i := range ids {
		for j := i + 1; j < len(ids); j++ {
			ex.AssumeNoCheck(c.Or(c.Eq(ids[i], c.IntC(0)), c.Not(c.Eq(ids[i], ids[j]))))
		}
	}
	// an arbitrary snapshot previously returned by some MCalls(): array p, length m
	snapP, snapM := c.Var("snap_arr", smt.Int), c.Var("snap_len", smt.Int)
	ex.AssumeNoCheck(c.And(c.Gt(snapP, c.IntC(0)), c.Ge(snapM, c.IntC(0))))
	ex.User["snapshotID"] = snapP
	if !op.zero {
		for _, s := range h.Pre {
			ex.AssumeNoCheck(c.Implies(c.Eq(s.ID, snapP), c.Le(snapM, s.Len)))
		}
	}
	var fname string
	switch op.kind {
	case "call", "nilcall":
		fname = op.method
	case "calls":
		fname = op.method + "Calls"
	case "reset":
		fname = "Reset" + op.method + "Calls"
	case "resetall":
		fname = "ResetCalls"
	}
	fn := m.genMethod(prog, fname)
	if fn == nil {
		ex.Fail("C02/C08: generated method " + m.Name + "." + fname + " not found")
		return
	}
	var params []exec.Value
	for i, p := range fn.Params[1:] {
		params = append(params, symVal(ex, fmt.Sprintf("arg%d_%s", i, p.Name()), p.Type()))
	}
	if op.kind == "call" {
		ex.AssumeNoCheck(c.Not(h.PreFunc[op.method].Nil))
	}
	if op.kind == "nilcall" {
		ex.AssumeNoCheck(h.PreFunc[op.method].Nil)
	}
	ret, pan := ex.CallCatch(fn, append([]exec.Value{h.Loc}, params...))
	ic.Witness(ex, func(mod map[string]string) any {
		var evs []string
		for _, e := range ex.Events {
			evs = append(evs, e.Kind+" "+e.Note)
		}
		return map[string]any{"function": fn.String(), "events": evs, "model": mod}
	})
	ti := traceCheck(ex, h, snapP, snapM)
	cellName := "calls." + op.method
	pre := h.Pre[op.method]
	var preV exec.Value = pre
	if op.zero {
		preV = exec.Slice{}
	}
	// frame: which lists may be written
	for name, ws := range ti.Writes {
		allowed := false
		switch op.kind {
		case "call", "reset":
			allowed = name == cellName
		case "nilcall":
			allowed = name == cellName && m.Cfg.Stub
		case "resetall":
			allowed = strings.HasPrefix(name, "calls.")
		}
		if !allowed {
			ex.Fail(fmt.Sprintf("C04/C08: %s.%s writes %s (%d times), which it must leave alone", m.Name, fname, name, len(ws)))
		}
	}
	userPanicked := false
	var userPanicVal exec.Value
	for _, e := range ex.Events {
		if e.Kind == "UserPanic" {
			userPanicked, userPanicVal = true, e.Args[0]
		}
	}
	sig := fn.Signature
	checkRecorded := func(tag string) {
		ws := ti.Writes[cellName]
		if len(ws) != 1 {
			ex.Fail(fmt.Sprintf(tag+": %s.%s writes its record list %d times (want exactly once)", m.Name, fname, len(ws)))
			return
		}
		n := sliceLen(ex, preV)
		post := ws[0]
		ex.Oblige(c.Eq(sliceLen(ex, post), c.Add(n, c.IntC(1))), tag+": the call appends exactly one record (len' = len + 1)")
		elt := h.Elt[op.method]
		if elt.NumFields() != len(params) {
			ex.Fail(fmt.Sprintf("C04: record of %s has %d fields for %d parameters", fname, elt.NumFields(), len(params)))
			return
		}
		newRec := sliceElem(ex, post, n)
		var eqs []*smt.Term
		for j := range params {
			eqs = append(eqs, c.Eq(newRec[j], toScalar(ex, params[j], newRec[j].Sort)))
		}
		ex.Oblige(c.And(eqs...), tag+": the new record holds the argument values field by field in parameter order")
		if ps, ok := preV.(*SymSlice); ok {
			i := c.Var("skolem_i", smt.Int)
			old := sliceElem(ex, ps, i)
			kept := sliceElem(ex, post, i)
			var keep []*smt.Term
			for j := range old {
				keep = append(keep, c.Eq(old[j], kept[j]))
			}
			ex.Oblige(c.Implies(c.And(c.Le(c.IntC(0), i), c.Lt(i, n)), c.And(keep...)), tag+": every earlier record is unchanged and stays at its position")
		}
		// snapshot relation is preserved (invariant of the induction)
		ex.Oblige(c.Implies(c.Eq(sliceID(ex, post), snapP), c.Le(snapM, sliceLen(ex, post))), "C04: the snapshot invariant (p current ⇒ m ≤ len) is preserved")
		if ss, ok := post.(*SymSlice); ok {
			ex.Oblige(c.And(c.Le(c.IntC(0), ss.Len), c.Le(ss.Len, ss.Cap)), "C04: representation invariant 0 ≤ len ≤ cap is preserved")
		}
	}
	switch op.kind {
	case "call":
		if len(ti.Calls) != 1 {
			ex.Fail(fmt.Sprintf("C03: %s.%s invokes %d configured functions (want exactly one)", m.Name, fname, len(ti.Calls)))
			return
		}
		call := ti.Calls[0]
		sf := call.Args[0].(*SymFunc)
		if sf != h.PreFunc[op.method] {
			ex.Fail(fmt.Sprintf("C03: %s.%s invokes %s instead of its own function field", m.Name, fname, sf.Field))
		} else {
			ex.Pass("C03: exactly one call, to this method's own function field")
		}
		cargs := call.Args[1:]
		if len(cargs) != len(params) {
			ex.Fail("C03: the configured function receives a different number of arguments")
		} else {
			var eqs []*smt.Term
			for j := range params {
				eqs = append(eqs, ex.ValueEq(cargs[j], params[j]))
			}
			ex.Oblige(c.And(eqs...), "C03: the configured function receives the very same argument values in the same order (variadic tail as the same slice)")
		}
		// recording happens before the delegation
		hdrIdx, callIdx := -1, -1
		for i, e := range ex.Events {
			if e.Kind == "Wr" && e.Args[0].(*SharedCell).Name == cellName && hdrIdx < 0 {
				hdrIdx = i
			}
			if e.Kind == "Call" {
				callIdx = i
			}
		}
		if hdrIdx < 0 || hdrIdx > callIdx {
			ex.Fail("C04: the call is not recorded before the configured function runs")
		} else {
			ex.Pass("C04: the record is stored before the configured function runs")
		}
		checkRecorded("C04")
		if userPanicked {
			if pan == nil || pan.Val != userPanicVal {
				ex.Fail("C03: a panic of the configured function does not reach the caller unchanged")
			} else {
				ex.Pass("C03: a panic of the configured function reaches the caller unchanged")
			}
			return
		}
		if pan != nil {
			ex.Fail("C03: the method panics although the configured function returned: " + pan.Msg)
			return
		}
		var rets []exec.Value
		for _, e := range ex.Events {
			if e.Kind == "CallRet" {
				rets = e.Args
			}
		}
		var got []exec.Value
		switch r := ret.(type) {
		case nil:
		case exec.Tuple:
			got = r
		default:
			got = []exec.Value{r}
		}
		if len(got) != len(rets) || len(got) != sig.Results().Len() {
			ex.Fail("C03: the method returns a different number of values than the configured function")
		} else {
			var eqs []*smt.Term
			for j := range got {
				eqs = append(eqs, ex.ValueEq(got[j], rets[j]))
			}
			ex.Oblige(c.And(eqs...), "C03: the caller observes exactly the configured function's results, in order")
		}
	case "nilcall":
		if !m.Cfg.Stub {
			if pan == nil {
				ex.Fail("C07: calling a method whose function field is nil does not panic (no -stub)")
				return
			}
			for _, e := range ex.Events {
				if e.Kind != "Rd" || strings.HasPrefix(e.Args[0].(*SharedCell).Name, "calls.") {
					ex.Fail("C07: something happens before the nil-function panic: " + e.Kind + " " + e.Note)
				}
			}
			msg := pan.Msg
			for _, need := range []string{m.Name, op.method + "Func", m.Iface + "." + op.method} {
				if !strings.Contains(msg, need) {
					ex.Fail(fmt.Sprintf("C07: panic message %q does not name %q", msg, need))
				}
			}
			if pan.Runtime {
				ex.Fail("C07: the nil function field causes a runtime error instead of the identifying panic: " + msg)
			} else {
				ex.Pass("C07: identifying panic before anything else")
			}
			return
		}
		if pan != nil {
			ex.Fail("C07: with -stub the method still panics on a nil function field: " + pan.Msg)
			return
		}
		if len(ti.Calls) != 0 {
			ex.Fail("C07: with -stub and a nil function field something is still invoked")
		}
		checkRecorded("C07/C04")
		var got []exec.Value
		switch r := ret.(type) {
		case nil:
		case exec.Tuple:
			got = r
		default:
			got = []exec.Value{r}
		}
		if len(got) != sig.Results().Len() {
			ex.Fail("C07: stubbed method returns the wrong number of values")
			return
		}
		for j := range got {
			zero := ex.Zero(sig.Results().At(j).Type())
			ex.Oblige(ex.ValueEq(got[j], zero), fmt.Sprintf("C07: with -stub result %d is the zero value of its type", j))
		}
	case "calls":
		if pan != nil {
			ex.Fail("C04: accessor panics: " + pan.Msg)
			return
		}
		if len(ti.Writes) > 0 || len(ti.Calls) > 0 {
			ex.Fail("C04: the accessor changes state or calls user code")
		}
		ex.Oblige(c.And(c.Eq(sliceLen(ex, ret), sliceLen(ex, preV)), c.Eq(sliceID(ex, ret), sliceID(ex, preV))), "C04: MCalls() returns exactly the current record list")
		if op.zero {
			ex.Oblige(c.Eq(sliceLen(ex, ret), c.IntC(0)), "C04: the zero-value mock reports no calls")
		}
	case "reset", "resetall":
		if pan != nil {
			ex.Fail("C08: reset panics: " + pan.Msg)
			return
		}
		names := []string{op.method}
		if op.kind == "resetall" {
			names = m.Methods
		}
		for _, name := range names {
			ws := ti.Writes["calls."+name]
			if len(ws) > 1 {
				ex.Fail(fmt.Sprintf("C08: %s writes the list of %s %d times", fname, name, len(ws)))
				continue
			}
			// final value of the list: what was written, or the pre-state if the reset left it alone
			var final exec.Value = h.Pre[name]
			if len(ws) == 1 {
				final = ws[0]
			}
			ex.Oblige(c.Eq(sliceLen(ex, final), c.IntC(0)), "C08: after "+map[bool]string{true: "ResetCalls", false: "ResetMCalls"}[op.kind == "resetall"]+" the record list it names is empty")
			// the snapshot relation must survive the reset, or a later in-place append lands inside a returned slice
			ex.Oblige(c.Implies(c.Eq(sliceID(ex, final), snapP), c.Le(snapM, sliceLen(ex, final))), "C04: a reset leaves every slice already returned by MCalls() detached from future appends (snapshot invariant preserved)")
		}
	}
}

func sortedCopy(ss []string) []string {
	out := append([]string(nil), ss...)
	for i := range out {
		for j := i + 1; j < len(out); j++ {
			if out[j] < out[i] {
				out[i], out[j] = out[j], out[i]
			}
		}
	}
	return out
}
