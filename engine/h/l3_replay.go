package h

import (
	"fmt"
	"os"
	"path/filepath"
	"strings"
	"time"

	"moqsym/exec"
)

// l3ReplayTest is a reflection-driven scenario test compiled next to the generated mocks. It checks
// the observable statements of C03–C08 on one concrete mock and method and prints REPRODUCED <prop>
// for each statement the real generated code violates. It is only used to confirm solver findings.
const l3ReplayTest = `package PKG

import (
	"fmt"
	"os"
	"reflect"
	"strings"
	"sync"
	"testing"
	"time"
)

type zzStringer int

func (zzStringer) String() string { return "s" }

var zzMocks = map[string]func() interface{}{
REGISTRY
}

// typed shims for unexported interface methods (reflection cannot call them)
var zzLower = map[string]func(m interface{}, seq int){
LOWERSHIMS
}

var zzLowerCalls = map[string]func(m interface{}) int{
LOWERCALLS
}

var zzCounter int

func zzValue(t reflect.Type) reflect.Value {
	zzCounter++
	v := reflect.New(t).Elem()
	switch t.Kind() {
	case reflect.Int, reflect.Int8, reflect.Int16, reflect.Int32, reflect.Int64:
		v.SetInt(int64(zzCounter))
	case reflect.Uint, reflect.Uint8, reflect.Uint16, reflect.Uint32, reflect.Uint64:
		v.SetUint(uint64(zzCounter))
	case reflect.Float32, reflect.Float64:
		v.SetFloat(float64(zzCounter))
	case reflect.String:
		v.SetString(fmt.Sprintf("s%d", zzCounter))
	case reflect.Bool:
		v.SetBool(zzCounter%2 == 0)
	case reflect.Slice:
		s := reflect.MakeSlice(t, 2, 4)
		for i := 0; i < 2; i++ {
			s.Index(i).Set(zzValue(t.Elem()))
		}
		return s
	case reflect.Ptr:
		p := reflect.New(t.Elem())
		return p
	case reflect.Map:
		return reflect.MakeMap(t)
	case reflect.Chan:
		return reflect.MakeChan(reflect.ChanOf(reflect.BothDir, t.Elem()), 1).Convert(t)
	case reflect.Struct:
		for i := 0; i < t.NumField(); i++ {
			if v.Field(i).CanSet() {
				v.Field(i).Set(zzValue(t.Field(i).Type))
			}
		}
	case reflect.Array:
		for i := 0; i < t.Len(); i++ {
			v.Index(i).Set(zzValue(t.Elem()))
		}
	case reflect.Func:
		return reflect.MakeFunc(t, func(args []reflect.Value) []reflect.Value {
			out := make([]reflect.Value, t.NumOut())
			for i := range out {
				out[i] = reflect.Zero(t.Out(i))
			}
			return out
		})
	case reflect.Interface:
		if t.NumMethod() == 0 {
			v.Set(reflect.ValueOf(fmt.Sprintf("iface%d", zzCounter)))
		}
	}
	return v
}

func zzSame(a, b reflect.Value) bool {
	if a.Kind() == reflect.Slice && b.Kind() == reflect.Slice {
		if a.Len() != b.Len() || a.IsNil() != b.IsNil() {
			return false
		}
		if a.Len() > 0 && a.Pointer() != b.Pointer() {
			return false // a variadic tail must be forwarded as the same slice
		}
		return true
	}
	switch a.Kind() {
	case reflect.Func, reflect.Chan, reflect.Map, reflect.Ptr:
		return a.Pointer() == b.Pointer()
	}
	return reflect.DeepEqual(a.Interface(), b.Interface())
}

type zzH struct {
	t      *testing.T
	mock   reflect.Value
	method string
	mt     reflect.Method
	fnType reflect.Type
	found  []string
}

func (h *zzH) report(prop, msg string) {
	h.found = append(h.found, prop)
	fmt.Printf("REPRODUCED %s: %s\n", prop, msg)
	h.t.Errorf("REPRODUCED %s: %s", prop, msg)
}

func (h *zzH) args() []reflect.Value {
	var in []reflect.Value
	for i := 0; i < h.fnType.NumIn(); i++ {
		in = append(in, zzValue(h.fnType.In(i)))
	}
	return in
}

func (h *zzH) call(in []reflect.Value) (out []reflect.Value, pv interface{}) {
	defer func() { pv = recover() }()
	m := h.mock.MethodByName(h.method)
	if h.fnType.IsVariadic() {
		return m.CallSlice(in), nil
	}
	return m.Call(in), nil
}

func (h *zzH) calls(method string) reflect.Value {
	return h.mock.MethodByName(method + "Calls").Call(nil)[0]
}

func (h *zzH) setFunc(method string, f func(args []reflect.Value) []reflect.Value) {
	fld := h.mock.Elem().FieldByName(method + "Func")
	fld.Set(reflect.MakeFunc(fld.Type(), f))
}

func (h *zzH) methods() []string {
	var out []string
	t := h.mock.Elem().Type()
	for i := 0; i < t.NumField(); i++ {
		if n := t.Field(i).Name; strings.HasSuffix(n, "Func") && t.Field(i).Type.Kind() == reflect.Func && t.Field(i).PkgPath == "" {
			out = append(out, strings.TrimSuffix(n, "Func"))
		}
	}
	return out
}

func (h *zzH) zeroOuts() []reflect.Value {
	out := make([]reflect.Value, h.fnType.NumOut())
	for i := range out {
		out[i] = reflect.Zero(h.fnType.Out(i))
	}
	return out
}

func (h *zzH) recordEquals(rec reflect.Value, in []reflect.Value) bool {
	if rec.NumField() != len(in) {
		return false
	}
	for i := range in {
		if !zzSame(rec.Field(i), in[i]) {
			return false
		}
	}
	return true
}

func zzWatch(d time.Duration, f func()) bool {
	done := make(chan struct{})
	go func() { defer func() { recover() }(); f(); close(done) }()
	select {
	case <-done:
		return true
	case <-time.After(d):
		return false
	}
}

func TestZZReplay(t *testing.T) {
	name, method, stub := os.Getenv("ZZ_MOCK"), os.Getenv("ZZ_METHOD"), os.Getenv("ZZ_STUB") == "1"
	mk, ok := zzMocks[name]
	if !ok {
		t.Fatalf("unknown mock %s", name)
	}
	newH := func() *zzH {
		h := &zzH{t: t, mock: reflect.ValueOf(mk()), method: method}
		fld := h.mock.Elem().FieldByName(method + "Func")
		h.fnType = fld.Type()
		return h
	}
	hasResets := reflect.ValueOf(mk()).MethodByName("ResetCalls").IsValid()

	// ---- C03: faithful delegation ----
	func() {
		h := newH()
		var got []reflect.Value
		nCalls := 0
		outs := make([]reflect.Value, h.fnType.NumOut())
		for i := range outs {
			outs[i] = zzValue(h.fnType.Out(i))
		}
		for _, m := range h.methods() {
			m := m
			if m == method {
				continue
			}
			ft := h.mock.Elem().FieldByName(m + "Func").Type()
			h.setFunc(m, func(a []reflect.Value) []reflect.Value {
				h.report("C03", "calling "+method+" invoked "+m+"Func")
				o := make([]reflect.Value, ft.NumOut())
				for i := range o {
					o[i] = reflect.Zero(ft.Out(i))
				}
				return o
			})
		}
		seenInside := -1
		h.setFunc(method, func(a []reflect.Value) []reflect.Value {
			nCalls++
			got = a
			seenInside = h.calls(method).Len()
			return outs
		})
		in := h.args()
		res, pv := h.call(in)
		if pv != nil {
			h.report("C03", fmt.Sprint("method panicked although the function returned: ", pv))
			return
		}
		if nCalls != 1 {
			h.report("C03", fmt.Sprintf("configured function invoked %d times", nCalls))
			return
		}
		if len(got) != len(in) {
			h.report("C03", "different number of arguments forwarded")
		} else {
			for i := range in {
				if !zzSame(got[i], in[i]) {
					h.report("C03", fmt.Sprintf("argument %d not forwarded unchanged: got %v want %v", i, got[i], in[i]))
				}
			}
		}
		if len(res) != len(outs) {
			h.report("C03", "different number of results")
		} else {
			for i := range outs {
				if !zzSame(res[i], outs[i]) {
					h.report("C03", fmt.Sprintf("result %d not passed through", i))
				}
			}
		}
		if seenInside != 1 {
			h.report("C04", fmt.Sprintf("inside the configured function %sCalls() has %d entries, want 1", method, seenInside))
		}
	}()
	// C03/C04: panic passes through, call stays recorded
	func() {
		h := newH()
		sentinel := &struct{ x int }{7}
		h.setFunc(method, func(a []reflect.Value) []reflect.Value { panic(sentinel) })
		_, pv := h.call(h.args())
		if pv != interface{}(sentinel) {
			h.report("C03", fmt.Sprint("panic value of the configured function is not what the caller sees: ", pv))
		}
		if h.calls(method).Len() != 1 {
			h.report("C04", "a call whose function panicked is not recorded")
		}
	}()
	// ---- C04: recording, order, snapshot stability ----
	func() {
		h := newH()
		if h.calls(method).Len() != 0 {
			h.report("C04", "zero-value mock reports calls")
		}
		h.setFunc(method, func(a []reflect.Value) []reflect.Value { return h.zeroOuts() })
		var sent [][]reflect.Value
		for i := 0; i < 3; i++ {
			in := h.args()
			sent = append(sent, in)
			h.call(in)
		}
		cs := h.calls(method)
		if cs.Len() != 3 {
			h.report("C04", fmt.Sprintf("%d records after 3 calls", cs.Len()))
			return
		}
		for i := 0; i < 3; i++ {
			if !h.recordEquals(cs.Index(i), sent[i]) {
				h.report("C04", fmt.Sprintf("record %d does not hold the arguments of call %d", i, i))
			}
		}
		snap := h.calls(method)
		check := func(when string) {
			if snap.Len() != 3 {
				h.report("C04", "snapshot length changed "+when)
				return
			}
			for i := 0; i < 3; i++ {
				if !h.recordEquals(snap.Index(i), sent[i]) {
					h.report("C04", fmt.Sprintf("a slice returned by %sCalls() was changed %s (element %d)", method, when, i))
					return
				}
			}
		}
		for i := 0; i < 5; i++ {
			h.call(h.args())
		}
		check("by later calls")
		if hasResets {
			h.mock.MethodByName("Reset" + method + "Calls").Call(nil)
			var sent2 [][]reflect.Value
			for i := 0; i < 4; i++ {
				in := h.args()
				sent2 = append(sent2, in)
				h.call(in)
			}
			check("by a per-method reset followed by calls")
			snap2 := h.calls(method)
			check2 := func(when string) {
				if snap2.Len() != 4 {
					h.report("C04", "snapshot length changed "+when)
					return
				}
				for i := 0; i < 4; i++ {
					if !h.recordEquals(snap2.Index(i), sent2[i]) {
						h.report("C04", fmt.Sprintf("a slice returned by %sCalls() was changed %s (element %d)", method, when, i))
						return
					}
				}
			}
			h.mock.MethodByName("ResetCalls").Call(nil)
			if h.calls(method).Len() != 0 {
				h.report("C08", "ResetCalls did not empty "+method)
			}
			for i := 0; i < 4; i++ {
				h.call(h.args())
			}
			check("by ResetCalls followed by calls")
			check2("by ResetCalls followed by calls")
			snap3 := h.calls(method)
			_ = snap3
			h.mock.MethodByName("Reset" + method + "Calls").Call(nil)
			h.call(h.args())
			check2("by a per-method reset followed by a call")
			if h.calls(method).Len() != 4 {
				h.report("C08", fmt.Sprintf("recording after ResetCalls does not restart from empty: %d", h.calls(method).Len()))
			}
		}
	}()
	// ---- C07: nil function ----
	func() {
		h := newH()
		in := h.args()
		res, pv := h.call(in)
		if !stub {
			s, _ := pv.(string)
			if pv == nil {
				h.report("C07", "nil function field does not panic")
			} else if !strings.Contains(s, name) || !strings.Contains(s, method+"Func") || !strings.Contains(s, "."+method) {
				h.report("C07", fmt.Sprint("panic does not identify mock, field and method: ", pv))
			}
			if h.calls(method).Len() != 0 {
				h.report("C07", "something was recorded before the nil-function panic")
			}
			return
		}
		if pv != nil {
			h.report("C07", fmt.Sprint("with -stub the nil function field panics: ", pv))
			return
		}
		for i, r := range res {
			if !r.IsZero() {
				h.report("C07", fmt.Sprintf("with -stub result %d is not the zero value", i))
			}
		}
		if cs := h.calls(method); cs.Len() != 1 || !h.recordEquals(cs.Index(0), in) {
			h.report("C07", "with -stub the call is not recorded like any other")
		}
	}()
	// ---- C08: resets clear exactly what they name ----
	if hasResets {
		func() {
			h := newH()
			ms := h.methods()
			for _, m := range ms {
				hm := &zzH{t: t, mock: h.mock, method: m, fnType: h.mock.Elem().FieldByName(m + "Func").Type()}
				hm.setFunc(m, func(a []reflect.Value) []reflect.Value { return hm.zeroOuts() })
				hm.call(hm.args())
				hm.call(hm.args())
			}
			h.mock.MethodByName("Reset" + method + "Calls").Call(nil)
			for _, m := range ms {
				n := h.calls(m).Len()
				if m == method && n != 0 {
					h.report("C08", "Reset"+method+"Calls did not empty its own list")
				}
				if m != method && n != 2 {
					h.report("C08", fmt.Sprintf("Reset%sCalls changed the records of %s (%d left)", method, m, n))
				}
			}
			h.mock.MethodByName("ResetCalls").Call(nil)
			for _, m := range ms {
				if h.calls(m).Len() != 0 {
					h.report("C08", "ResetCalls left records of "+m)
				}
			}
		}()
	}
	// C08 for an unexported method next to its exported namesake (write / Write)
	if low, ok := zzLower[name]; ok && hasResets {
		func() {
			h := newH()
			hw := &zzH{t: t, mock: h.mock, method: "Write", fnType: h.mock.Elem().FieldByName("WriteFunc").Type()}
			hw.setFunc("Write", func(a []reflect.Value) []reflect.Value { return hw.zeroOuts() })
			hw.call(hw.args())
			hw.call(hw.args())
			low(h.mock.Interface(), 0)
			low(h.mock.Interface(), 1)
			h.mock.MethodByName("ResetwriteCalls").Call(nil)
			if n := hw.calls("Write").Len(); n != 2 {
				h.report("C08", fmt.Sprintf("ResetwriteCalls changed the records of Write (%d left)", n))
			}
			if n := zzLowerCalls[name](h.mock.Interface()); n != 0 {
				h.report("C08", fmt.Sprintf("ResetwriteCalls left %d records of write", n))
			}
			low(h.mock.Interface(), 2)
			h.mock.MethodByName("ResetWriteCalls").Call(nil)
			if n := zzLowerCalls[name](h.mock.Interface()); n != 1 {
				h.report("C08", fmt.Sprintf("ResetWriteCalls changed the records of write (%d left)", n))
			}
		}()
	}
	// ---- C06: no lock held while user code runs ----
	func() {
		h := newH()
		depth := 0
		h.setFunc(method, func(a []reflect.Value) []reflect.Value {
			depth++
			if depth == 1 {
				h.call(h.args()) // re-enter the same method
				h.calls(method)
				if hasResets {
					h.mock.MethodByName("Reset" + method + "Calls").Call(nil)
					h.mock.MethodByName("ResetCalls").Call(nil)
				}
			}
			return h.zeroOuts()
		})
		if !zzWatch(3*time.Second, func() { h.call(h.args()) }) {
			h.report("C06", "the configured function deadlocks when it re-enters the mock (method, accessor, resets)")
		}
	}()
	func() {
		h := newH()
		block, entered := make(chan struct{}), make(chan struct{}, 4)
		first := true
		var mu sync.Mutex
		h.setFunc(method, func(a []reflect.Value) []reflect.Value {
			mu.Lock()
			f := first
			first = false
			mu.Unlock()
			if f {
				entered <- struct{}{}
				<-block
			}
			return h.zeroOuts()
		})
		go func() { defer func() { recover() }(); h.call(h.args()) }()
		<-entered
		ok := zzWatch(3*time.Second, func() {
			h.call(h.args())
			h.calls(method)
			if hasResets {
				h.mock.MethodByName("Reset" + method + "Calls").Call(nil)
				h.mock.MethodByName("ResetCalls").Call(nil)
			}
		})
		close(block)
		if !ok {
			h.report("C06", "a call blocked inside the configured function blocks other goroutines using the mock")
		}
	}()
	// C06: two goroutines, whole-mock reset against per-method resets (lock-order inversions)
	if hasResets {
		func() {
			h := newH()
			ok := zzWatch(10*time.Second, func() {
				var wg sync.WaitGroup
				wg.Add(2)
				go func() {
					defer wg.Done()
					for i := 0; i < 30000; i++ {
						h.mock.MethodByName("ResetCalls").Call(nil)
					}
				}()
				go func() {
					defer wg.Done()
					ms := h.methods()
					for i := 0; i < 30000; i++ {
						h.mock.MethodByName("Reset" + ms[i%len(ms)] + "Calls").Call(nil)
					}
				}()
				wg.Wait()
			})
			if !ok {
				h.report("C06", "ResetCalls and a per-method reset running in two goroutines deadlock against each other")
			}
		}()
	}
	// ---- C05: concurrent use (run under -race) ----
	func() {
		h := newH()
		for _, m := range h.methods() {
			hm := &zzH{t: t, mock: h.mock, method: m, fnType: h.mock.Elem().FieldByName(m + "Func").Type()}
			hm.setFunc(m, func(a []reflect.Value) []reflect.Value { return hm.zeroOuts() })
		}
		var wg sync.WaitGroup
		const G, N = 4, 40
		for g := 0; g < G; g++ {
			wg.Add(1)
			go func() {
				defer wg.Done()
				for i := 0; i < N; i++ {
					hh := &zzH{t: t, mock: h.mock, method: method, fnType: h.fnType}
					in := make([]reflect.Value, h.fnType.NumIn())
					for k := range in {
						in[k] = reflect.Zero(h.fnType.In(k))
					}
					hh.call(in)
				}
			}()
		}
		stop := make(chan struct{})
		var wg2 sync.WaitGroup
		wg2.Add(1)
		go func() {
			defer wg2.Done()
			prev := 0
			for {
				select {
				case <-stop:
					return
				default:
				}
				n := h.calls(method).Len()
				if n < prev && !hasResets {
					h.report("C05", "a later snapshot is shorter than an earlier one")
				}
				prev = n
			}
		}()
		if low, ok := zzLower[name]; ok {
			// an unexported method of the interface, called concurrently with everything else
			wg2.Add(1)
			go func() {
				defer wg2.Done()
				defer func() { recover() }()
				for i := 0; i < 300; i++ {
					low(h.mock.Interface(), i)
				}
			}()
		}
		if hasResets && os.Getenv("ZZ_RACE_RESET") == "1" {
			wg2.Add(1)
			go func() {
				defer wg2.Done()
				for i := 0; i < 200; i++ {
					h.mock.MethodByName("ResetCalls").Call(nil)
					h.mock.MethodByName("Reset" + method + "Calls").Call(nil)
				}
			}()
		}
		wg.Wait()
		close(stop)
		wg2.Wait()
		if !(hasResets && os.Getenv("ZZ_RACE_RESET") == "1") {
			if n := h.calls(method).Len(); n != G*N {
				h.report("C05", fmt.Sprintf("%d records after %d concurrent calls", n, G*N))
			}
		}
	}()
}
`

// l3Instantiation gives type arguments for the generic corpus interfaces in the replay test.
var l3Instantiation = map[string]string{"Gen": "[int]", "Gen2": "[string, zzStringer]", "GenU": "[int]"}

// l3Confirm replays a violated G.* obligation on the real generated mock with go test -race.
func l3Confirm(ic *IC, ob *exec.Obligation) *Violation {
	env := ic.Env
	st, _ := env.L3Get()
	if st == nil || st.Repo == nil {
		return nil
	}
	// instance name: <MockName>/<op>:<method>[/zero-value]
	parts := strings.Split(ic.Name, "/")
	if len(parts) < 2 {
		return nil
	}
	mockName := parts[0]
	method := ""
	if i := strings.Index(parts[1], ":"); i >= 0 {
		method = parts[1][i+1:]
	}
	var m *L3Mock
	for _, x := range st.Mocks {
		if x.Name == mockName {
			m = x
		}
	}
	if m == nil {
		return nil
	}
	if method == "" && len(m.Methods) > 0 {
		method = m.Methods[0]
	}
	if method != "" && (method[0] < 'A' || method[0] > 'Z') {
		method = strings.ToUpper(method[:1]) + method[1:] // reflection drives the exported namesake; typed shims cover the unexported method
	}
	props := labelProps(ob.Label)
	prop := env.Prop
	if len(props) > 0 {
		prop = props[0]
	}
	key := "l3:" + mockName + ":" + method + ":" + ob.Label
	v := &Violation{Property: prop, Harness: ic.H.ID, Instance: ic.Name, Label: ob.Label, Model: ob.Model, Key: key}
	if len(props) > 1 {
		v.Props = props[1:]
	}
	out, dir := l3RunReplay(env, st, m, method, prop, key)
	v.Replay = dir
	v.Detail = short(out, 600)
	for _, p := range append([]string{prop}, v.Props...) {
		if strings.Contains(out, "REPRODUCED "+p+":") {
			v.Confirmed = true
		}
	}
	if (prop == "C05" || contains(v.Props, "C05")) && strings.Contains(out, "WARNING: DATA RACE") {
		v.Confirmed = true
	}
	return v
}

func contains(ss []string, s string) bool {
	for _, x := range ss {
		if x == s {
			return true
		}
	}
	return false
}

var l3ReplayCache = map[string]string{}

func l3RunReplay(env *Env, st *L3State, m *L3Mock, method, prop, key string) (string, string) {
	dir := env.replayDir(prop, key)
	pkgDir := filepath.Join(st.Dir, "corpus")
	pkgName := "corpus"
	if m.Cfg.OtherPkg {
		pkgDir = filepath.Join(pkgDir, "other")
		pkgName = "other"
	}
	var reg strings.Builder
	for _, x := range st.Mocks {
		if x.Cfg.OtherPkg != m.Cfg.OtherPkg {
			continue
		}
		fmt.Fprintf(&reg, "\t%q: func() interface{} { return &%s%s{} },\n", x.Name, x.Name, l3Instantiation[x.Iface])
	}
	var low strings.Builder
	for _, x := range st.Mocks {
		if x.Cfg.OtherPkg != m.Cfg.OtherPkg || x.Iface != "CasePair" {
			continue
		}
		fmt.Fprintf(&low, "\t%q: func(m interface{}, seq int) {\n\t\tmm := m.(*%s)\n\t\tif seq == 0 {\n\t\t\tmm.writeFunc = func(int) {}\n\t\t}\n\t\tmm.write(seq)\n\t},\n", x.Name, x.Name)
	}
	var lowCalls strings.Builder
	for _, x := range st.Mocks {
		if x.Cfg.OtherPkg != m.Cfg.OtherPkg || x.Iface != "CasePair" {
			continue
		}
		fmt.Fprintf(&lowCalls, "\t%q: func(m interface{}) int { return len(m.(*%s).writeCalls()) },\n", x.Name, x.Name)
	}
	src := strings.Replace(strings.Replace(strings.Replace(strings.Replace(l3ReplayTest, "PKG", pkgName, 1), "REGISTRY", reg.String(), 1), "LOWERSHIMS", low.String(), 1), "LOWERCALLS", lowCalls.String(), 1)
	testFile := filepath.Join(pkgDir, "zz_replay_test.go")
	env.mu.Lock()
	os.WriteFile(testFile, []byte(src), 0o644)
	env.mu.Unlock()
	os.WriteFile(filepath.Join(dir, "zz_replay_test.go"), []byte(src), 0o644)
	stub := "0"
	if m.Cfg.Stub {
		stub = "1"
	}
	envv := append(cliEnv(), "ZZ_MOCK="+m.Name, "ZZ_METHOD="+method, "ZZ_STUB="+stub, "ZZ_RACE_RESET=1")
	cacheKey := m.Name + "/" + method
	env.mu.Lock()
	out, ok := l3ReplayCache[cacheKey]
	env.mu.Unlock()
	if !ok {
		out, _ = runCmd(pkgDir, 5*time.Minute, envv, "go", "test", "-race", "-vet=off", "-count=1", "-run", "TestZZReplay", ".")
		env.mu.Lock()
		l3ReplayCache[cacheKey] = out
		env.mu.Unlock()
	}
	os.WriteFile(filepath.Join(dir, "replay.out"), []byte(out), 0o644)
	os.WriteFile(filepath.Join(dir, "moq-commands.txt"), []byte(strings.Join(st.Cmds, "\n")+"\n"), 0o644)
	sh := fmt.Sprintf("#!/bin/sh\n# Regenerate the corpus mocks with moq built from the repository (commands in moq-commands.txt, run inside corpus/ of module corpus.example),\n# copy zz_replay_test.go next to them and run:\n#   ZZ_MOCK=%s ZZ_METHOD=%s ZZ_STUB=%s ZZ_RACE_RESET=1 go test -race -vet=off -count=1 -run TestZZReplay .\n# The engine does exactly this: cd %s && ./check %s quick\ncat \"$(dirname \"$0\")/replay.out\"\n", m.Name, method, stub, env.VerifDir, prop)
	os.WriteFile(filepath.Join(dir, "replay.sh"), []byte(sh), 0o755)
	return out, dir
}
