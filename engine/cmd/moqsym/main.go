package main

import (
	"flag"
	"fmt"
	"os"
	"strconv"

	"moqsym/h"
)

func main() {
	prop := flag.String("prop", "", "property id (C02..C20)")
	tier := flag.String("tier", "quick", "quick|thorough")
	repo := flag.String("repo", "/repo", "repository working tree")
	verif := flag.String("verif", "/verif", "verification directory")
	solver := flag.String("solver", "cvc5", "cvc5|z3|z3-new")
	workers := flag.Int("workers", 16, "parallel harness instances")
	only := flag.String("only", "", "run only the harness with this id")
	flag.Parse()
	if t := os.Getenv("VERIF_TIER"); t != "" && *tier == "" {
		*tier = t
	}
	seed := int64(1)
	if s := os.Getenv("VERIF_SEED"); s != "" {
		if n, err := strconv.ParseInt(s, 10, 64); err == nil {
			seed = n
		}
	}
	code, err := h.RunProperty(h.Options{Prop: *prop, Tier: *tier, Repo: *repo, Verif: *verif, Solver: *solver, Workers: *workers, Seed: seed, Only: *only})
	if err != nil {
		fmt.Fprintln(os.Stderr, "moqsym:", err)
		os.Exit(2)
	}
	os.Exit(code)
}
