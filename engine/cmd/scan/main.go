package main

import (
	"fmt"
	"sort"

	"moqsym/h"
)

func main() {
	r, err := h.Load("/repo", ".", "./pkg/moq", "./internal/registry", "./internal/template")
	if err != nil {
		panic(err)
	}
	ext := r.Externals()
	var ks []string
	for k := range ext {
		ks = append(ks, k)
	}
	sort.Strings(ks)
	for _, k := range ks {
		fmt.Println(k)
		for _, e := range ext[k] {
			fmt.Println("    ", e)
		}
	}
}
