// Package smt is a small hash-consing SMT-LIB2 term builder plus a pipe to a
// long-lived solver process (cvc5 --incremental, z3 -in).
package smt

import (
	"bufio"
	"fmt"
	"io"
	"os/exec"
	"sort"
	"strconv"
	"strings"
	"time"
)

// Sorts are SMT-LIB sort expressions.
const (
	Bool   = "Bool"
	Int    = "Int"
	String = "String"
	Val    = "Val" // uninterpreted sort for opaque Go values
)

// Term is an immutable hash-consed SMT term.
type Term struct {
	Op   string // "var", "const", "uf:<name>" or an SMT operator
	Args []*Term
	Sort string
	Name string // for var / uf

	IsConst bool
	I       int64
	B       bool
	S       string

	str string
	id  int
}

func (t *Term) String() string { return t.str }

// Ctx owns the hash-cons table and declarations.
type Ctx struct {
	tab    map[string]*Term
	Decls  []string          // declaration commands in creation order
	declOf map[string]string // name -> sort signature
	fresh  map[string]int
	nextID int
}

func NewCtx() *Ctx {
	return &Ctx{tab: map[string]*Term{}, declOf: map[string]string{}, fresh: map[string]int{}}
}

func (c *Ctx) intern(t *Term) *Term {
	if o, ok := c.tab[t.str]; ok {
		return o
	}
	c.nextID++
	t.id = c.nextID
	c.tab[t.str] = t
	return t
}

func quote(s string) string {
	var b strings.Builder
	b.WriteByte('"')
	for i := 0; i < len(s); i++ {
		ch := s[i]
		switch {
		case ch == '"':
			b.WriteString(`""`)
		case ch == '\\' || ch < 0x20 || ch > 0x7e:
			fmt.Fprintf(&b, `\u{%x}`, ch)
		default:
			b.WriteByte(ch)
		}
	}
	b.WriteByte('"')
	return b.String()
}

// Unquote parses an SMT-LIB string literal as printed by the solvers.
func Unquote(s string) string {
	s = strings.TrimSpace(s)
	if len(s) >= 2 && s[0] == '"' && s[len(s)-1] == '"' {
		s = s[1 : len(s)-1]
	}
	s = strings.ReplaceAll(s, `""`, `"`)
	var b strings.Builder
	for i := 0; i < len(s); i++ {
		if s[i] == '\\' && i+2 < len(s) && s[i+1] == 'u' {
			if s[i+2] == '{' {
				j := strings.IndexByte(s[i:], '}')
				if j > 0 {
					n, err := strconv.ParseInt(s[i+3:i+j], 16, 32)
					if err == nil {
						b.WriteRune(rune(n))
						i += j
						continue
					}
				}
			} else if i+5 < len(s) {
				n, err := strconv.ParseInt(s[i+2:i+6], 16, 32)
				if err == nil {
					b.WriteRune(rune(n))
					i += 5
					continue
				}
			}
		}
		b.WriteByte(s[i])
	}
	return b.String()
}

func (c *Ctx) IntC(i int64) *Term {
	s := strconv.FormatInt(i, 10)
	if i < 0 {
		s = "(- " + strconv.FormatInt(-i, 10) + ")"
	}
	return c.intern(&Term{Op: "const", Sort: Int, IsConst: true, I: i, str: s})
}
func (c *Ctx) BoolC(b bool) *Term {
	s := "false"
	if b {
		s = "true"
	}
	return c.intern(&Term{Op: "const", Sort: Bool, IsConst: true, B: b, str: s})
}
func (c *Ctx) StrC(s string) *Term {
	return c.intern(&Term{Op: "const", Sort: String, IsConst: true, S: s, str: quote(s)})
}
func (c *Ctx) True() *Term  { return c.BoolC(true) }
func (c *Ctx) False() *Term { return c.BoolC(false) }

// Var declares (once) and returns a variable.
func (c *Ctx) Var(name, sort string) *Term {
	name = sanitize(name)
	if s, ok := c.declOf[name]; ok {
		if s != sort {
			panic("smt: redeclared " + name + " with sort " + sort + " (was " + s + ")")
		}
	} else {
		c.declOf[name] = sort
		if sort == Val && c.declOf["$sort:Val"] == "" {
			c.declOf["$sort:Val"] = "x"
			c.Decls = append(c.Decls, "(declare-sort Val 0)")
		}
		if strings.Contains(sort, "Val") && c.declOf["$sort:Val"] == "" {
			c.declOf["$sort:Val"] = "x"
			c.Decls = append(c.Decls, "(declare-sort Val 0)")
		}
		c.Decls = append(c.Decls, fmt.Sprintf("(declare-const %s %s)", name, sort))
	}
	return c.intern(&Term{Op: "var", Sort: sort, Name: name, str: name})
}

// Fresh returns the next variable of a per-prefix sequence. After ResetFresh the
// same sequence is produced again, so re-executing a path yields the same names.
func (c *Ctx) Fresh(prefix, sort string) *Term {
	prefix = sanitize(prefix + "$" + sort)
	c.fresh[prefix]++
	return c.Var(fmt.Sprintf("%s!%d", prefix, c.fresh[prefix]), sort)
}

// ResetFresh makes Fresh deterministic across re-executions of a path.
func (c *Ctx) ResetFresh() { c.fresh = map[string]int{} }

func sanitize(s string) string {
	var b strings.Builder
	for _, r := range s {
		switch {
		case r >= 'a' && r <= 'z', r >= 'A' && r <= 'Z', r >= '0' && r <= '9', r == '_', r == '!', r == '.', r == '$':
			b.WriteRune(r)
		default:
			b.WriteByte('_')
		}
	}
	if b.Len() == 0 {
		return "v"
	}
	return b.String()
}

// UF declares an uninterpreted function and applies it.
func (c *Ctx) UF(name string, argSorts []string, ret string, args ...*Term) *Term {
	name = sanitize(name)
	sig := strings.Join(argSorts, " ") + "->" + ret
	if s, ok := c.declOf[name]; ok {
		if s != sig {
			panic("smt: UF " + name + " redeclared: " + sig + " vs " + s)
		}
	} else {
		c.declOf[name] = sig
		if strings.Contains(sig, "Val") && c.declOf["$sort:Val"] == "" {
			c.declOf["$sort:Val"] = "x"
			c.Decls = append(c.Decls, "(declare-sort Val 0)")
		}
		c.Decls = append(c.Decls, fmt.Sprintf("(declare-fun %s (%s) %s)", name, strings.Join(argSorts, " "), ret))
	}
	if len(args) == 0 {
		return c.intern(&Term{Op: "uf:" + name, Sort: ret, Name: name, str: name})
	}
	return c.app("uf:"+name, name, ret, args...)
}

func (c *Ctx) app(op, smtop, sort string, args ...*Term) *Term {
	var b strings.Builder
	b.WriteByte('(')
	b.WriteString(smtop)
	for _, a := range args {
		b.WriteByte(' ')
		b.WriteString(a.str)
	}
	b.WriteByte(')')
	return c.intern(&Term{Op: op, Args: args, Sort: sort, str: b.String()})
}

// App builds a raw application without folding.
func (c *Ctx) App(op, sort string, args ...*Term) *Term { return c.app(op, op, sort, args...) }

// ---- Boolean ----

func (c *Ctx) Not(a *Term) *Term {
	if a.IsConst {
		return c.BoolC(!a.B)
	}
	if a.Op == "not" {
		return a.Args[0]
	}
	return c.app("not", "not", Bool, a)
}

func (c *Ctx) And(as ...*Term) *Term {
	var out []*Term
	seen := map[*Term]bool{}
	for _, a := range as {
		if a.IsConst {
			if !a.B {
				return c.False()
			}
			continue
		}
		if a.Op == "and" {
			for _, x := range a.Args {
				if !seen[x] {
					seen[x] = true
					out = append(out, x)
				}
			}
			continue
		}
		if !seen[a] {
			seen[a] = true
			out = append(out, a)
		}
	}
	switch len(out) {
	case 0:
		return c.True()
	case 1:
		return out[0]
	}
	return c.app("and", "and", Bool, out...)
}

func (c *Ctx) Or(as ...*Term) *Term {
	var out []*Term
	seen := map[*Term]bool{}
	for _, a := range as {
		if a.IsConst {
			if a.B {
				return c.True()
			}
			continue
		}
		if !seen[a] {
			seen[a] = true
			out = append(out, a)
		}
	}
	switch len(out) {
	case 0:
		return c.False()
	case 1:
		return out[0]
	}
	return c.app("or", "or", Bool, out...)
}

func (c *Ctx) Implies(a, b *Term) *Term { return c.Or(c.Not(a), b) }

func (c *Ctx) Ite(cond, a, b *Term) *Term {
	if cond.IsConst {
		if cond.B {
			return a
		}
		return b
	}
	if a == b {
		return a
	}
	return c.app("ite", "ite", a.Sort, cond, a, b)
}

func (c *Ctx) Eq(a, b *Term) *Term {
	if a.Sort != b.Sort {
		panic(fmt.Sprintf("smt: Eq sort mismatch %s:%s vs %s:%s", a, a.Sort, b, b.Sort))
	}
	if a == b {
		return c.True()
	}
	if a.IsConst && b.IsConst {
		return c.False() // distinct hash-consed constants
	}
	if a.Sort == Bool {
		if a.IsConst {
			if a.B {
				return b
			}
			return c.Not(b)
		}
		if b.IsConst {
			if b.B {
				return a
			}
			return c.Not(a)
		}
	}
	if a.Sort == String {
		// cheap structural disequalities: lengths of constant prefix/suffix
		if r, ok := c.strEqFold(a, b); ok {
			return r
		}
	}
	if a.id > b.id {
		a, b = b, a
	}
	return c.app("=", "=", Bool, a, b)
}

// strEqFold decides some equalities between concatenations syntactically.
func (c *Ctx) strEqFold(a, b *Term) (*Term, bool) {
	// minimal length reasoning: const vs concat containing a longer const part
	minLen := func(t *Term) int {
		n := 0
		for _, p := range c.Flatten(t) {
			if p.IsConst {
				n += len(p.S)
			}
		}
		return n
	}
	if a.IsConst && minLen(b) > len(a.S) {
		return c.False(), true
	}
	if b.IsConst && minLen(a) > len(b.S) {
		return c.False(), true
	}
	// the constant pieces of a concatenation must occur, in order, inside an equal constant
	inOrder := func(k *Term, t *Term) bool {
		rest := k.S
		for _, p := range c.Flatten(t) {
			if !p.IsConst {
				continue
			}
			i := strings.Index(rest, p.S)
			if i < 0 {
				return false
			}
			rest = rest[i+len(p.S):]
		}
		return true
	}
	ends := func(k *Term, t *Term) bool { // constant first/last pieces must be a prefix/suffix of k
		ps := c.Flatten(t)
		if ps[0].IsConst && !strings.HasPrefix(k.S, ps[0].S) {
			return false
		}
		if l := ps[len(ps)-1]; l.IsConst && !strings.HasSuffix(k.S, l.S) {
			return false
		}
		return true
	}
	if a.IsConst && !b.IsConst && (!inOrder(a, b) || !ends(a, b)) {
		return c.False(), true
	}
	if b.IsConst && !a.IsConst && (!inOrder(b, a) || !ends(b, a)) {
		return c.False(), true
	}
	// two concatenations with constant suffixes (prefixes) that cannot be aligned
	if !a.IsConst && !b.IsConst {
		pa, pb := c.Flatten(a), c.Flatten(b)
		la, lb := pa[len(pa)-1], pb[len(pb)-1]
		if la.IsConst && lb.IsConst && !strings.HasSuffix(la.S, lb.S) && !strings.HasSuffix(lb.S, la.S) {
			return c.False(), true
		}
		if pa[0].IsConst && pb[0].IsConst && !strings.HasPrefix(pa[0].S, pb[0].S) && !strings.HasPrefix(pb[0].S, pa[0].S) {
			return c.False(), true
		}
	}
	return nil, false
}

func (c *Ctx) Distinct(as ...*Term) *Term {
	if len(as) < 2 {
		return c.True()
	}
	var cs []*Term
	for i := range as {
		for j := i + 1; j < len(as); j++ {
			cs = append(cs, c.Not(c.Eq(as[i], as[j])))
		}
	}
	return c.And(cs...)
}

// ---- Int ----

func (c *Ctx) Add(a, b *Term) *Term {
	if a.IsConst && b.IsConst {
		return c.IntC(a.I + b.I)
	}
	if a.IsConst && a.I == 0 {
		return b
	}
	if b.IsConst && b.I == 0 {
		return a
	}
	return c.app("+", "+", Int, a, b)
}
func (c *Ctx) Sub(a, b *Term) *Term {
	if a.IsConst && b.IsConst {
		return c.IntC(a.I - b.I)
	}
	if b.IsConst && b.I == 0 {
		return a
	}
	return c.app("-", "-", Int, a, b)
}
func (c *Ctx) Mul(a, b *Term) *Term {
	if a.IsConst && b.IsConst {
		return c.IntC(a.I * b.I)
	}
	return c.app("*", "*", Int, a, b)
}
func (c *Ctx) Lt(a, b *Term) *Term {
	if a.IsConst && b.IsConst {
		return c.BoolC(a.I < b.I)
	}
	if a == b {
		return c.False()
	}
	return c.app("<", "<", Bool, a, b)
}
func (c *Ctx) Le(a, b *Term) *Term {
	if a.IsConst && b.IsConst {
		return c.BoolC(a.I <= b.I)
	}
	if a == b {
		return c.True()
	}
	return c.app("<=", "<=", Bool, a, b)
}
func (c *Ctx) Gt(a, b *Term) *Term { return c.Lt(b, a) }
func (c *Ctx) Ge(a, b *Term) *Term { return c.Le(b, a) }

// ---- String ----

// Flatten returns the concatenation parts of a string term.
func (c *Ctx) Flatten(t *Term) []*Term {
	if t.Op == "str.++" {
		var out []*Term
		for _, a := range t.Args {
			out = append(out, c.Flatten(a)...)
		}
		return out
	}
	return []*Term{t}
}

func (c *Ctx) Concat(as ...*Term) *Term {
	var parts []*Term
	for _, a := range as {
		for _, p := range c.Flatten(a) {
			if p.IsConst && p.S == "" {
				continue
			}
			if p.IsConst && len(parts) > 0 && parts[len(parts)-1].IsConst {
				parts[len(parts)-1] = c.StrC(parts[len(parts)-1].S + p.S)
				continue
			}
			parts = append(parts, p)
		}
	}
	switch len(parts) {
	case 0:
		return c.StrC("")
	case 1:
		return parts[0]
	}
	return c.app("str.++", "str.++", String, parts...)
}

func (c *Ctx) Len(a *Term) *Term {
	if a.IsConst {
		return c.IntC(int64(len(a.S)))
	}
	return c.app("str.len", "str.len", Int, a)
}

// Substr is (str.substr s off len).
func (c *Ctx) Substr(s, off, n *Term) *Term {
	if s.IsConst && off.IsConst && n.IsConst {
		o, l := off.I, n.I
		if o < 0 || o > int64(len(s.S)) || l <= 0 {
			return c.StrC("")
		}
		e := o + l
		if e > int64(len(s.S)) {
			e = int64(len(s.S))
		}
		return c.StrC(s.S[o:e])
	}
	return c.app("str.substr", "str.substr", String, s, off, n)
}

func (c *Ctx) StrLt(a, b *Term) *Term {
	if a.IsConst && b.IsConst {
		return c.BoolC(a.S < b.S)
	}
	if a == b {
		return c.False()
	}
	return c.app("str.<", "str.<", Bool, a, b)
}
func (c *Ctx) Contains(a, b *Term) *Term {
	if a.IsConst && b.IsConst {
		return c.BoolC(strings.Contains(a.S, b.S))
	}
	return c.app("str.contains", "str.contains", Bool, a, b)
}
func (c *Ctx) PrefixOf(p, s *Term) *Term {
	if p.IsConst && s.IsConst {
		return c.BoolC(strings.HasPrefix(s.S, p.S))
	}
	return c.app("str.prefixof", "str.prefixof", Bool, p, s)
}
func (c *Ctx) SuffixOf(p, s *Term) *Term {
	if p.IsConst && s.IsConst {
		return c.BoolC(strings.HasSuffix(s.S, p.S))
	}
	return c.app("str.suffixof", "str.suffixof", Bool, p, s)
}
func (c *Ctx) IndexOf(s, sub, from *Term) *Term {
	if s.IsConst && sub.IsConst && from.IsConst && from.I >= 0 && from.I <= int64(len(s.S)) {
		i := strings.Index(s.S[from.I:], sub.S)
		if i < 0 {
			return c.IntC(-1)
		}
		return c.IntC(int64(i) + from.I)
	}
	return c.app("str.indexof", "str.indexof", Int, s, sub, from)
}
func (c *Ctx) FromInt(a *Term) *Term {
	if a.IsConst && a.I >= 0 {
		return c.StrC(strconv.FormatInt(a.I, 10))
	}
	return c.app("str.from_int", "str.from_int", String, a)
}
func (c *Ctx) ToCode(a *Term) *Term {
	if a.IsConst {
		if len(a.S) == 1 {
			return c.IntC(int64(a.S[0]))
		}
		return c.IntC(-1)
	}
	return c.app("str.to_code", "str.to_code", Int, a)
}
func (c *Ctx) FromCode(a *Term) *Term {
	if a.IsConst {
		if a.I >= 0 && a.I < 128 {
			return c.StrC(string(rune(a.I)))
		}
	}
	return c.app("str.from_code", "str.from_code", String, a)
}

// InRe asserts s ∈ regex (regex given as SMT-LIB text).
func (c *Ctx) InRe(s *Term, re string) *Term {
	return c.intern(&Term{Op: "str.in_re", Args: []*Term{s}, Sort: Bool, str: "(str.in_re " + s.str + " " + re + ")"})
}

// ---- Arrays ----

func ArraySort(idx, elem string) string { return "(Array " + idx + " " + elem + ")" }

func (c *Ctx) Select(a, i *Term) *Term {
	// read-over-write folding
	for a.Op == "store" {
		if a.Args[1] == i {
			return a.Args[2]
		}
		if a.Args[1].IsConst && i.IsConst {
			a = a.Args[0]
			continue
		}
		break
	}
	es := strings.TrimSuffix(strings.SplitN(a.Sort, " ", 3)[2], ")")
	return c.app("select", "select", es, a, i)
}
func (c *Ctx) Store(a, i, v *Term) *Term { return c.app("store", "store", a.Sort, a, i, v) }

// ---- free variables ----

func (c *Ctx) FreeVars(ts ...*Term) []*Term {
	seen := map[*Term]bool{}
	var out []*Term
	var walk func(t *Term)
	walk = func(t *Term) {
		if seen[t] {
			return
		}
		seen[t] = true
		if t.Op == "var" {
			out = append(out, t)
		}
		for _, a := range t.Args {
			walk(a)
		}
	}
	for _, t := range ts {
		walk(t)
	}
	sort.Slice(out, func(i, j int) bool { return out[i].Name < out[j].Name })
	return out
}

// ---- Solver ----

type Result int

const (
	Unsat Result = iota
	Sat
	Unknown
)

func (r Result) String() string { return [...]string{"unsat", "sat", "unknown"}[r] }

type Solver struct {
	Name      string
	cmd       *exec.Cmd
	in        io.WriteCloser
	out       *bufio.Reader
	ctx       *Ctx
	declared  int
	Queries   int
	Time      time.Duration
	Errors    int
	LastErr   string
	Log       io.Writer
	timeoutS  int
	marker    int
	Counts    [3]int
	Fallbacks int
}

// SlowLog, when set, receives one line per query slower than 40 ms.
var SlowLog io.Writer

// NewSolver starts a solver process. kind ∈ cvc5, z3, z3-new.
func NewSolver(kind string, ctx *Ctx, timeoutS int) (*Solver, error) {
	var cmd *exec.Cmd
	ms := strconv.Itoa(timeoutS * 1000)
	switch kind {
	case "cvc5":
		inc := timeoutS * 1000 / 3
		cmd = exec.Command("cvc5", "--incremental", "--strings-exp", "--produce-models", "--tlimit-per="+strconv.Itoa(inc), "-q")
		_ = ms
	case "z3", "z3-new":
		cmd = exec.Command(kind, "-in", "-t:"+ms)
	default:
		return nil, fmt.Errorf("unknown solver %s", kind)
	}
	in, err := cmd.StdinPipe()
	if err != nil {
		return nil, err
	}
	out, err := cmd.StdoutPipe()
	if err != nil {
		return nil, err
	}
	cmd.Stderr = cmd.Stdout
	if err := cmd.Start(); err != nil {
		return nil, err
	}
	s := &Solver{Name: kind, cmd: cmd, in: in, out: bufio.NewReaderSize(out, 1<<20), ctx: ctx, timeoutS: timeoutS}
	s.send("(set-option :print-success false)")
	s.send("(set-logic ALL)")
	return s, nil
}

func (s *Solver) send(line string) {
	if s.Log != nil {
		fmt.Fprintln(s.Log, line)
	}
	io.WriteString(s.in, line+"\n")
}

func (s *Solver) Close() {
	if s == nil || s.cmd == nil {
		return
	}
	s.send("(exit)")
	s.in.Close()
	done := make(chan struct{})
	go func() { s.cmd.Wait(); close(done) }()
	select {
	case <-done:
	case <-time.After(2 * time.Second):
		s.cmd.Process.Kill()
	}
}

func (s *Solver) syncDecls() {
	for ; s.declared < len(s.ctx.Decls); s.declared++ {
		s.send(s.ctx.Decls[s.declared])
	}
}

// readSexp reads one balanced s-expression or atom line.
func (s *Solver) readResponse() string {
	var b strings.Builder
	depth := 0
	inStr := false
	started := false
	for {
		r, err := s.out.ReadByte()
		if err != nil {
			return b.String() + " (error \"solver pipe closed\")"
		}
		if !started {
			if r == ' ' || r == '\n' || r == '\r' || r == '\t' {
				continue
			}
			started = true
		}
		b.WriteByte(r)
		if inStr {
			if r == '"' {
				inStr = false
			}
			continue
		}
		switch r {
		case '"':
			inStr = true
		case '(':
			depth++
		case ')':
			depth--
			if depth == 0 {
				return b.String()
			}
		case '\n':
			if depth == 0 {
				return strings.TrimSpace(b.String())
			}
		}
	}
}

// roundtrip sends commands followed by an echo marker and returns every
// response printed before the marker.
func (s *Solver) roundtrip(cmds ...string) []string {
	for _, c := range cmds {
		s.send(c)
	}
	s.marker++
	mk := fmt.Sprintf("@@%d@@", s.marker)
	s.send("(echo \"" + mk + "\")")
	var out []string
	for {
		r := s.readResponse()
		if strings.Contains(r, mk) {
			return out
		}
		if strings.Contains(r, "solver pipe closed") {
			out = append(out, r)
			return out
		}
		out = append(out, r)
	}
}

// oneShot decides a query in fresh, non-incremental processes: cvc5 and z3-new run side by side
// and the first definitive answer wins (cvc5 is quick on satisfiable string queries, z3 on some
// unsatisfiable ones with regular expressions that cvc5 does not finish).
func (s *Solver) oneShot(fs []*Term, want []*Term) (Result, map[*Term]string) {
	var b strings.Builder
	b.WriteString("(set-logic ALL)\n")
	for _, d := range s.ctx.Decls {
		b.WriteString(d + "\n")
	}
	for _, f := range fs {
		if f.IsConst && f.B {
			continue
		}
		b.WriteString("(assert " + f.str + ")\n")
	}
	b.WriteString("(check-sat)\n")
	var ws []*Term
	for _, w := range want {
		if !w.IsConst {
			ws = append(ws, w)
			b.WriteString("(get-value (" + w.str + "))\n")
		}
	}
	script := b.String()
	type ans struct {
		r Result
		m map[*Term]string
	}
	ch := make(chan ans, 2)
	run := func(cmd *exec.Cmd) {
		cmd.Stdin = strings.NewReader(script)
		out, _ := cmd.Output()
		lines := strings.Split(strings.TrimSpace(string(out)), "\n")
		switch {
		case len(lines) > 0 && strings.HasPrefix(lines[0], "unsat"):
			ch <- ans{Unsat, nil}
		case len(lines) > 0 && strings.HasPrefix(lines[0], "sat"):
			model := map[*Term]string{}
			for _, w := range want {
				if w.IsConst {
					model[w] = w.str
				}
			}
			parts := splitTop(strings.Join(lines[1:], "\n"))
			for i, w := range ws {
				if i >= len(parts) || strings.Contains(parts[i], "(error") {
					continue
				}
				r := strings.TrimSpace(parts[i])
				r = strings.TrimPrefix(r, "((")
				r = strings.TrimSuffix(r, "))")
				if strings.HasPrefix(r, w.str) {
					r = strings.TrimSpace(r[len(w.str):])
				}
				model[w] = r
			}
			ch <- ans{Sat, model}
		default:
			ch <- ans{Unknown, nil}
		}
	}
	to := s.timeoutS * 2
	c1 := exec.Command("cvc5", "--strings-exp", "--produce-models", "--tlimit="+strconv.Itoa(to*1000), "-q")
	c2 := exec.Command("z3-new", "-in", "-T:"+strconv.Itoa(to))
	go run(c1)
	go run(c2)
	a1 := <-ch
	if a1.r != Unknown {
		go func() { <-ch }()
		if c1.Process != nil {
			c1.Process.Kill()
		}
		if c2.Process != nil {
			c2.Process.Kill()
		}
		return a1.r, a1.m
	}
	a2 := <-ch
	return a2.r, a2.m
}

// splitTop splits a sequence of top-level s-expressions.
func splitTop(s string) []string {
	var out []string
	depth, start, inStr := 0, -1, false
	for i := 0; i < len(s); i++ {
		ch := s[i]
		if inStr {
			if ch == '"' {
				inStr = false
			}
			continue
		}
		switch ch {
		case '"':
			inStr = true
		case '(':
			if depth == 0 {
				start = i
			}
			depth++
		case ')':
			depth--
			if depth == 0 && start >= 0 {
				out = append(out, s[start:i+1])
				start = -1
			}
		}
	}
	return out
}

// Check decides satisfiability of the conjunction of fs.
// If want is non-nil and the result is Sat, model values for those terms are returned.
// Any "(error" line printed by the solver makes the answer Unknown.
func (s *Solver) Check(fs []*Term, want []*Term) (Result, map[*Term]string) {
	return s.check(fs, want, false)
}

// CheckLong retries a query the portfolio left undecided, with a three times longer limit.
func (s *Solver) CheckLong(fs []*Term, want []*Term) (Result, map[*Term]string) {
	t0 := time.Now()
	defer func() { s.Time += time.Since(t0) }()
	s.Queries++
	old := s.timeoutS
	s.timeoutS = old * 3
	r, m := s.oneShot(fs, want)
	s.timeoutS = old
	s.Fallbacks++
	s.Counts[r]++
	return r, m
}

// CheckHard is Check for queries known to be hard for the incremental process (regular-expression
// domains): they go straight to the one-shot portfolio.
func (s *Solver) CheckHard(fs []*Term, want []*Term) (Result, map[*Term]string) {
	return s.check(fs, want, true)
}

func (s *Solver) check(fs []*Term, want []*Term, hard bool) (Result, map[*Term]string) {
	t0 := time.Now()
	defer func() { s.Time += time.Since(t0) }()
	s.Queries++
	conj := s.ctx.And(fs...)
	if conj.IsConst {
		if !conj.B {
			s.Counts[Unsat]++
			return Unsat, nil
		}
		if len(want) == 0 {
			s.Counts[Sat]++
			return Sat, nil
		}
	}
	if hard && s.Name == "cvc5" {
		r, m := s.oneShot(fs, want)
		s.Fallbacks++
		s.Counts[r]++
		return r, m
	}
	s.syncDecls()
	cmds := []string{"(push 1)"}
	for _, f := range fs {
		if f.IsConst && f.B {
			continue
		}
		cmds = append(cmds, "(assert "+f.str+")")
	}
	cmds = append(cmds, "(check-sat)")
	tq := time.Now()
	resps := s.roundtrip(cmds...)
	if SlowLog != nil && time.Since(tq) > 40*time.Millisecond {
		last := cmds[len(cmds)-2]
		if len(last) > 300 {
			last = last[:300]
		}
		fmt.Fprintf(SlowLog, "SLOW %.0fms %v asserts=%d last=%s\n", float64(time.Since(tq).Milliseconds()), resps, len(cmds)-2, last)
	}
	res := Unknown
	sawErr := false
	for _, resp := range resps {
		switch {
		case strings.HasPrefix(resp, "unsat"):
			res = Unsat
		case strings.HasPrefix(resp, "sat"):
			res = Sat
		case strings.Contains(resp, "error"):
			sawErr = true
			s.LastErr = resp
		}
	}
	if sawErr {
		s.Errors++
		res = Unknown
	}
	if res == Unknown && !sawErr && s.Name == "cvc5" {
		// the incremental process can get stuck on a query a fresh process decides at once
		s.roundtrip("(pop 1)")
		r2, m2 := s.oneShot(fs, want)
		s.Fallbacks++
		s.Counts[r2]++
		return r2, m2
	}
	var model map[*Term]string
	if res == Sat && len(want) > 0 {
		model = map[*Term]string{}
		for _, w := range want {
			if w.IsConst {
				model[w] = w.str
				continue
			}
			rs := s.roundtrip("(get-value (" + w.str + "))")
			if len(rs) != 1 || strings.Contains(rs[0], "(error") {
				s.Errors++
				if len(rs) > 0 {
					s.LastErr = rs[0]
				}
				continue
			}
			r := strings.TrimSpace(rs[0])
			r = strings.TrimPrefix(r, "((")
			r = strings.TrimSuffix(r, "))")
			if strings.HasPrefix(r, w.str) {
				r = strings.TrimSpace(r[len(w.str):])
			}
			model[w] = r
		}
	}
	s.roundtrip("(pop 1)")
	s.Counts[res]++
	return res, model
}
