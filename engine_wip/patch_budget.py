p='/verif/engine/h/h_mock.go'
s=open(p).read()
s=s.replace('''					out = append(out, Instance{Name: name, Run: func(ic *IC) *exec.Stats {
						ic.StrBound = bound
						fn := env.Repo.Method(pkgMoq, "Mocker", "Mock")''','''					out = append(out, Instance{Name: name, Run: func(ic *IC) *exec.Stats {
						ic.StrBound = bound
						ic.MaxPaths = 60000 // termination guard of the thorough tier: hitting it is reported as inconclusive
						fn := env.Repo.Method(pkgMoq, "Mocker", "Mock")''')
open(p,'w').write(s)
print('ok')
