import re
E='/verif/engine/'
# ---- typesmodel: Universe global, Func.Origin, Scope for universe ----
p=E+'h/typesmodel.go'
s=open(p).read()
s=s.replace('''type MObj struct {
	Kind string // Var | Func | TypeName''','''type MObj struct {
	Origin *MObj // for methods of instantiated generic interfaces: the generic method (else nil = itself)
	Kind string // Var | Func | TypeName''')
s=s.replace('''	st["go/types.NewVar"] = st["go/types.NewParam"]''','''	st["go/types.NewVar"] = st["go/types.NewParam"]
	st["(*go/types.Func).Origin"] = func(ex *exec.Exec, c *exec.CallInfo) exec.Value {
		o := recvO(ex, c)
		if o.Origin != nil {
			return o.Origin
		}
		return o
	}
	st["(*go/types.TypeName).Type"] = st["(*go/types.object).Type"]''')
s=s.replace('''	case *types.Func:
		m.Kind = "Func"''','''	case *types.Func:
		m.Kind = "Func"
		if x.Origin() != x {
			m.Origin = cv.Obj(x.Origin())
		}''')
s+='''

// UniverseScope: the model of go/types.Universe (type names only), built from the real one.
func UniverseScope(ex *exec.Exec) *MScope {
	cv := NewConv(ex)
	sc := &MScope{}
	for _, n := range types.Universe.Names() {
		o := types.Universe.Lookup(n)
		if tn, ok := o.(*types.TypeName); ok {
			mo := cv.Obj(tn)
			sc.Names = append(sc.Names, mo.Name)
			sc.Objs = append(sc.Objs, mo)
		}
	}
	return sc
}
'''
open(p,'w').write(s)

p=E+'h/h_run.go'
s=open(p).read()
s=s.replace('''		"flag.Usage":     func(ex *exec.Exec) exec.Value { return exec.NilV{} },''','''		"flag.Usage":     func(ex *exec.Exec) exec.Value { return exec.NilV{} },
		"go/types.Universe": func(ex *exec.Exec) exec.Value { return UniverseScope(ex) },''')
open(p,'w').write(s)

# ---- H.mock shapes: comparable constraint, two instantiations of one generic interface ----
p=E+'h/h_mock.go'
s=open(p).read()
s=s.replace('''type UID string
type Repo[K interface{ UID }, V any] interface { Load(id K) (V, error) }
`''','''type UID string
type Repo[K interface{ UID }, V any] interface { Load(id K) (V, error) }
type CK[K comparable, V any] interface { Snap() map[K]V }
type St[T any] interface { Fetch(id string) (T, error) }
type U1 struct{}
type O1 struct{}
type US interface { St[U1] }
type OS interface { St[O1] }
`''')
s=s.replace('''	ifaceObjs := []string{"I1", "I2", "G", "L", "K", "AG", "SO", "Cmp", "Repo"}''','''	ifaceObjs := []string{"I1", "I2", "G", "L", "K", "AG", "SO", "Cmp", "Repo", "CK", "St", "US", "OS"}''')
s=s.replace('''		if obj.Tag == "L" || obj.Tag == "SO" || obj.Tag == "Repo" {''','''		if obj.Tag == "L" || obj.Tag == "SO" || obj.Tag == "Repo" || obj.Tag == "US" || obj.Tag == "OS" {''')
s=s.replace('''type %s string\\ntype %s[K interface{ %s }, V any] interface{ Load(id K) (V, error) }\\n", src,''','''type %s string\\ntype %s[K interface{ %s }, V any] interface{ Load(id K) (V, error) }\\ntype %s[K comparable, V any] interface{ Snap() map[K]V }\\ntype %s[T any] interface{ Fetch(id string) (T, error) }\\ntype %s struct{}\\ntype %s struct{}\\ntype %s interface{ %s[%s] }\\ntype %s interface{ %s[%s] }\\n", src,''')
s=s.replace('''name("UID", "UID"), name("Repo", "Repo"), name("UID", "UID")),''','''name("UID", "UID"), name("Repo", "Repo"), name("UID", "UID"), name("CK", "CK"), name("St", "St"), name("U1", "U1"), name("O1", "O1"), name("US", "US"), name("St", "St"), name("U1", "U1"), name("OS", "OS"), name("St", "St"), name("O1", "O1")),''')
# constraint identity check
s=s.replace('''				if q < ntp && (tp.Vr == nil || tp.Vr.Name != nt.TParams.Ts[q].Obj.Name) {
					okAll = false
				}''','''				if q < ntp && (tp.Vr == nil || tp.Vr.Name != nt.TParams.Ts[q].Obj.Name) {
					okAll = false
				}
				if q < ntp && tp.Vr != nil && tp.Vr.Typ != nt.TParams.Ts[q].Constraint {
					ex.Fail(fmt.Sprintf("C09: type parameter %d of mock %d is not declared under the interface's own constraint", q, i))
				}''')
open(p,'w').write(s)

# ---- mock replay: classify constraint errors; avoid F6 (comparable in the self-check) ----
p=E+'h/mockreplay.go'
s=open(p).read()
s=s.replace('''			case strings.Contains(vet, "not a generic type") || strings.Contains(vet, "type arguments") || strings.Contains(vet, "without instantiation"):''','''			case strings.Contains(vet, "not a generic type") || strings.Contains(vet, "type arguments") || strings.Contains(vet, "without instantiation") ||
				strings.Contains(vet, "comparable constraint") || strings.Contains(vet, "invalid map key type") || strings.Contains(vet, "does not satisfy"):''')
s=s.replace('''	cs := mockCLICase(m, k, mode)
	// steer faults to realisable ones''','''	cs := mockCLICase(m, k, mode)
	// finding F6 (recorded in DESIGN.md): the self-check line of an interface constrained by bare
	// `comparable` is invalid Go on the unchanged tree; replays of such interfaces use -skip-ensure
	// so that this known, out-of-reach defect cannot confirm an unrelated counterexample
	if ck := nonEmpty(m["name_CK"], "CK"); true {
		for _, a := range cs.Args[len(cs.Args)-k:] {
			if a == ck || strings.HasPrefix(a, ck+":") {
				has := false
				for _, x := range cs.Args {
					if x == "-skip-ensure" {
						has = true
					}
				}
				if !has {
					cs.Args = append([]string{"-skip-ensure"}, cs.Args...)
					m = cloneWith(m, "cfg_SkipEnsure", "true")
				}
			}
		}
	}
	// steer faults to realisable ones''')
s+='''

func cloneWith(m map[string]string, k, v string) map[string]string {
	out := map[string]string{}
	for a, b := range m {
		out[a] = b
	}
	out[k] = v
	return out
}
'''
open(p,'w').write(s)
print("patched")
