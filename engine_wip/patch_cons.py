p='/verif/engine/h/h_mock.go'
s=open(p).read()
s=s.replace('''type US interface { St[U1] }
type OS interface { St[O1] }
`''','''type US interface { St[U1] }
type OS interface { St[O1] }
type Cons interface {
	C1(m map[string]q.T)
	C2(c chan q.T)
	C3(f func(q.T) error)
	C4(s struct{ F q.T })
	C5(a [2]q.T)
	C6(p **q.T)
	C7(i interface{ Do(x q.T) })
	C8(v ...func() q.T)
	C9(g G[q.T]) map[q.T][]chan *q.T
}
`''')
s=s.replace('''"CK", "St", "US", "OS"}''','''"CK", "St", "US", "OS", "Cons"}''')
s=s.replace('''\\ntype %s interface{ %s[%s] }\\ntype %s interface{ %s[%s] }\\n", src,''','''\\ntype %s interface{ %s[%s] }\\ntype %s interface{ %s[%s] }\\ntype %s interface {\\n\\tC1(m map[string]q.T)\\n\\tC2(c chan q.T)\\n\\tC3(f func(q.T) error)\\n\\tC4(s struct{ F q.T })\\n\\tC5(a [2]q.T)\\n\\tC6(p **q.T)\\n\\tC7(i interface{ Do(x q.T) })\\n\\tC8(v ...func() q.T)\\n\\tC9(g %s[q.T]) map[q.T][]chan *q.T\\n}\\n", src,''')
s=s.replace('''name("OS", "OS"), name("St", "St"), name("O1", "O1")),''','''name("OS", "OS"), name("St", "St"), name("O1", "O1"), name("Cons", "Cons"), G),''')
s=s.replace('''			"constraints":         {"L", "SO", "Repo", "I2"},''','''			"constraints":         {"L", "SO", "Repo", "I2"},
			"type-constructors":   {"Cons", "I1"},''')
open(p,'w').write(s)
print('ok')
